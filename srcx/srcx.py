"""SRCX: the two inline re-derivations of the 6-April rule are translated FROM THE CURRENT SOURCE TEXT to SMT and
compared, for every calendar date, with the specification that KANI proves for TaxPeriod::from_date.

  S1  crates/cgt-mcp/src/server.rs   explain_matching:   let year = if <cond> { <e1> } else { <e2> };
  S2  crates/cgt-core/src/calculator.rs build_tax_year_summary: start/end dates and the .filter(|m| ...) range

Expression language handled: integer literals, identifiers, <x>.year()/.month()/.day(), + -, comparisons,
&& || !, parentheses, NaiveDate::from_ymd_opt(a,b,c) constants, date >= / <= / < / > / == date.
Anything else: the sub-claim is reported as NOT COVERED (never as a pass)."""
import re
import subprocess


class Unsupported(Exception):
    pass


TOK = re.compile(r"\s*(?:(\d+)|([A-Za-z_][A-Za-z0-9_:]*)|(&&|\|\||<=|>=|==|!=|[-+<>!().,&]))")


def tokenize(s):
    out, pos = [], 0
    s = s.strip()
    while pos < len(s):
        m = TOK.match(s, pos)
        if not m:
            raise Unsupported(f"cannot tokenize at {s[pos:pos+20]!r}")
        pos = m.end()
        if m.group(1):
            out.append(("num", m.group(1)))
        elif m.group(2):
            out.append(("id", m.group(2)))
        else:
            out.append(("op", m.group(3)))
    return out


class Parser:
    """produces SMT-LIB terms; dates are triples (y, m, d) of Int terms"""

    def __init__(self, toks, env):
        self.t, self.i, self.env = toks, 0, env

    def peek(self):
        return self.t[self.i] if self.i < len(self.t) else (None, None)

    def eat(self, v=None):
        k, x = self.peek()
        if v is not None and x != v:
            raise Unsupported(f"expected {v} got {x}")
        self.i += 1
        return k, x

    def expr(self):
        return self.or_()

    def or_(self):
        a = self.and_()
        while self.peek()[1] == "||":
            self.eat()
            b = self.and_()
            a = ("bool", f"(or {a[1]} {b[1]})")
        return a

    def and_(self):
        a = self.cmp()
        while self.peek()[1] == "&&":
            self.eat()
            b = self.cmp()
            a = ("bool", f"(and {a[1]} {b[1]})")
        return a

    def cmp(self):
        a = self.add()
        if self.peek()[1] in ("<", "<=", ">", ">=", "==", "!="):
            op = self.eat()[1]
            b = self.add()
            return ("bool", compare(op, a, b))
        return a

    def add(self):
        a = self.unary()
        while self.peek()[1] in ("+", "-"):
            op = self.eat()[1]
            b = self.unary()
            if a[0] != "int" or b[0] != "int":
                raise Unsupported("arithmetic on non-integers")
            a = ("int", f"({op} {a[1]} {b[1]})")
        return a

    def unary(self):
        if self.peek()[1] == "!":
            self.eat()
            a = self.unary()
            return ("bool", f"(not {a[1]})")
        if self.peek()[1] == "&":
            self.eat()
            return self.unary()
        return self.postfix()

    def postfix(self):
        a = self.atom()
        while self.peek()[1] == ".":
            self.eat()
            k, name = self.eat()
            self.eat("(")
            self.eat(")")
            if a[0] != "date" or name not in ("year", "month", "day"):
                raise Unsupported(f"method .{name}()")
            a = ("int", a[1][("year", "month", "day").index(name)])
        return a

    def atom(self):
        k, x = self.eat()
        if k == "num":
            return ("int", x)
        if k == "op" and x == "(":
            a = self.expr()
            self.eat(")")
            return a
        if k == "id":
            if x.endswith("from_ymd_opt"):
                self.eat("(")
                a = self.expr()
                self.eat(",")
                b = self.expr()
                self.eat(",")
                c = self.expr()
                self.eat(")")
                return ("date", (a[1], b[1], c[1]))
            base = x
            if base in self.env:
                v = self.env[base]
                # field access like m.disposal_date is tokenised as id . id : handle here
                while self.peek()[1] == "." and self.i + 1 < len(self.t) and self.t[self.i + 1][0] == "id" and not (self.i + 2 < len(self.t) and self.t[self.i + 2][1] == "("):
                    self.eat()
                    fld = self.eat()[1]
                    if not isinstance(v, dict) or fld not in v:
                        raise Unsupported(f"field {fld}")
                    v = v[fld]
                return v
            raise Unsupported(f"identifier {x}")
        raise Unsupported(f"token {x}")


def compare(op, a, b):
    smt = {"<": "<", "<=": "<=", ">": ">", ">=": ">=", "==": "=", "!=": "distinct"}[op]
    if a[0] == "int" and b[0] == "int":
        return f"({smt} {a[1]} {b[1]})"
    if a[0] == "date" and b[0] == "date":
        (y1, m1, d1), (y2, m2, d2) = a[1], b[1]
        lt = f"(or (< {y1} {y2}) (and (= {y1} {y2}) (or (< {m1} {m2}) (and (= {m1} {m2}) (< {d1} {d2})))))"
        eq = f"(and (= {y1} {y2}) (= {m1} {m2}) (= {d1} {d2}))"
        gt = f"(and (not {lt}) (not {eq}))"
        return {"<": lt, "<=": f"(or {lt} {eq})", ">": gt, ">=": f"(not {lt})", "==": eq, "!=": f"(not {eq})"}[op]
    raise Unsupported("comparison of mixed kinds")


def parse(src, env):
    p = Parser(tokenize(src), env)
    r = p.expr()
    if p.i != len(p.t):
        raise Unsupported(f"trailing tokens {p.t[p.i:][:4]}")
    return r


def balanced(s, start):
    """text inside the parenthesis/brace opening at s[start]"""
    opn = s[start]
    cls = {"(": ")", "{": "}"}[opn]
    depth = 0
    for i in range(start, len(s)):
        if s[i] == opn:
            depth += 1
        elif s[i] == cls:
            depth -= 1
            if depth == 0:
                return s[start + 1 : i], i
    raise Unsupported("unbalanced")


VALID_DATE = """(declare-const y Int) (declare-const m Int) (declare-const d Int)
(define-fun leap ((y Int)) Bool (and (= (mod y 4) 0) (or (not (= (mod y 100) 0)) (= (mod y 400) 0))))
(define-fun dim ((y Int) (m Int)) Int (ite (= m 2) (ite (leap y) 29 28) (ite (or (= m 4) (= m 6) (= m 9) (= m 11)) 30 31)))
(assert (and (>= y 0) (<= y 9999) (>= m 1) (<= m 12) (>= d 1) (<= d (dim y m))))
(define-fun spec () Int (ite (or (< m 4) (and (= m 4) (< d 6))) (- y 1) y))
"""


def solve(smt):
    """run z3 and cvc5 on the same query; returns (verdict, model-text) with verdict in sat/unsat/unknown; disagreement -> unknown"""
    smt = "(set-logic ALL)\n" + smt
    v, _, both = solve1(smt.replace("(get-model)", ""))
    if v == "sat":
        return solve1(smt)
    return v, "", both


def solve1(smt):
    res = []
    for cmd in (["/usr/bin/z3", "-in", "-T:60"], ["cvc5", "--lang", "smt2", "--tlimit=60000", "--produce-models"]):
        try:
            p = subprocess.run(cmd, input=smt, capture_output=True, text=True, timeout=90)
            out = p.stdout
        except (subprocess.TimeoutExpired, FileNotFoundError):
            out = "unknown"
        first = out.strip().splitlines()[0] if out.strip() else "unknown"
        if "(error" in out:
            first = "unknown"
        res.append((first, out))
    if res[0][0] == res[1][0] and res[0][0] in ("sat", "unsat"):
        return res[0][0], res[0][1], [r[0] for r in res]
    return "unknown", "", [r[0] for r in res]


def model_ints(text):
    out = {}
    for name, val in re.findall(r"\(define-fun (\w+) \(\) Int\s+(\(- \d+\)|\d+)\)", text):
        out[name] = -int(val[3:-1]) if val.startswith("(") else int(val)
    return out


def s1_mcp(repo):
    src = open(f"{repo}/crates/cgt-mcp/src/server.rs").read()
    m = re.search(r"let\s+year\s*=\s*if\s+(.*?)\s*\{\s*(.*?)\s*\}\s*else\s*\{\s*(.*?)\s*\}\s*;", src, re.S)
    if not m or "month()" not in m.group(1):
        raise Unsupported("anchor `let year = if <date test> {..} else {..};` not found in explain_matching")
    env = {"date": ("date", ("y", "m", "d"))}
    c, a, b = parse(m.group(1), env), parse(m.group(2), env), parse(m.group(3), env)
    if c[0] != "bool" or a[0] != "int" or b[0] != "int":
        raise Unsupported("unexpected kinds in the year expression")
    smt = VALID_DATE + f"(assert (not (= (ite {c[1]} {a[1]} {b[1]}) spec)))\n(check-sat)\n(get-model)\n"
    return "crates/cgt-mcp/src/server.rs explain_matching: " + " ".join(m.group(0).split()), smt


def s2_filter(repo):
    src = open(f"{repo}/crates/cgt-core/src/calculator.rs").read()
    i = src.find("fn build_tax_year_summary")
    if i < 0:
        raise Unsupported("fn build_tax_year_summary not found")
    body, _ = balanced(src, src.index("{", src.index(")", i)))
    # the function's first parameter is the year
    par = re.search(r"fn build_tax_year_summary\s*\(\s*(\w+)\s*:", src)
    yv = par.group(1)
    env = {yv: ("int", "Y")}
    for name, args in re.findall(r"let\s+(\w+)\s*=\s*(?:chrono::)?NaiveDate::from_ymd_opt\(([^)]*)\)", body):
        env[name] = parse(f"from_ymd_opt({args})", env)
    fm = re.search(r"\.filter\(\|\s*(\w+)\s*\|", body)
    if not fm:
        raise Unsupported("no .filter(|m| ..) closure in build_tax_year_summary")
    inner, _ = balanced(body, fm.start() + len(".filter"))
    closure = inner[inner.index("|", inner.index("|") + 1) + 1 :]
    env[fm.group(1)] = {"disposal_date": ("date", ("y", "m", "d"))}
    cond = parse(closure, env)
    if cond[0] != "bool":
        raise Unsupported("filter closure is not a boolean expression")
    smt = VALID_DATE + f"(declare-const Y Int) (assert (and (>= Y 1) (<= Y 9998)))\n(assert (not (= {cond[1]} (= spec Y))))\n(check-sat)\n(get-model)\n"
    return "crates/cgt-core/src/calculator.rs build_tax_year_summary: filter " + " ".join(closure.split()), smt


def run(repo):
    """returns list of dicts: name, status (discharged / counterexample / not-covered / inconclusive), detail"""
    out = []
    for name, fn in (("S1 MCP explain_matching year derivation", s1_mcp), ("S2 year-report filter range", s2_filter)):
        try:
            what, smt = fn(repo)
        except (Unsupported, OSError, ValueError) as e:
            out.append({"name": name, "status": "not-covered", "detail": str(e)})
            continue
        verdict, text, both = solve(smt)
        if verdict == "unsat":
            out.append({"name": name, "status": "discharged", "detail": what, "solvers": both})
        elif verdict == "sat":
            out.append({"name": name, "status": "counterexample", "detail": what, "model": model_ints(text), "solvers": both})
        else:
            out.append({"name": name, "status": "inconclusive", "detail": what, "solvers": both})
    return out


if __name__ == "__main__":
    import json
    import sys

    print(json.dumps(run(sys.argv[1] if len(sys.argv) > 1 else "/repo"), indent=1))
