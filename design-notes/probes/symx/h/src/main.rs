use cgt_core::matcher::Matcher;
use cgt_core::{GbpTransaction, Operation};
use chrono::NaiveDate;
use rust_decimal::sym;
use rust_decimal::Decimal;
use std::io::Write;
use z3::ast::{Bool, Real};

fn d(off: i64) -> NaiveDate {
    NaiveDate::from_ymd_opt(2024, 1, 10).unwrap() + chrono::Duration::days(off)
}


#[derive(Clone)]
struct Leg { rule: u8, sell_day: i64, acq_day: i64, qty: Decimal }

fn reference(kinds: &[char], days: &[i64], qs: &[Decimal]) -> Option<Vec<Leg>> {
    use std::collections::BTreeMap;
    let mut bought: BTreeMap<i64, Decimal> = BTreeMap::new();
    let mut sold: BTreeMap<i64, Decimal> = BTreeMap::new();
    for i in 0..kinds.len() {
        let m = if kinds[i] == 'B' { &mut bought } else { &mut sold };
        let e = m.entry(days[i]).or_insert(Decimal::ZERO);
        *e = *e + qs[i];
    }
    let mut claimed: BTreeMap<i64, Decimal> = BTreeMap::new();
    let mut pool = Decimal::ZERO;
    let mut legs = Vec::new();
    let mut alldays: Vec<i64> = bought.keys().chain(sold.keys()).cloned().collect();
    alldays.sort(); alldays.dedup();
    for &dd in &alldays {
        let b = bought.get(&dd).cloned().unwrap_or(Decimal::ZERO);
        let s = sold.get(&dd).cloned().unwrap_or(Decimal::ZERO);
        let mut rem = s;
        let sd = s.min(b);
        if s > Decimal::ZERO {
            if sd > Decimal::ZERO { legs.push(Leg{rule:0, sell_day:dd, acq_day:dd, qty:sd}); rem = rem - sd; }
            for (&d2, &b2) in bought.range((dd+1)..=(dd+30)) {
                if !(rem > Decimal::ZERO) { break; }
                let s2 = sold.get(&d2).cloned().unwrap_or(Decimal::ZERO);
                let c2 = claimed.get(&d2).cloned().unwrap_or(Decimal::ZERO);
                let avail = b2 - s2.min(b2) - c2;
                if avail > Decimal::ZERO {
                    let m = rem.min(avail);
                    legs.push(Leg{rule:1, sell_day:dd, acq_day:d2, qty:m});
                    rem = rem - m;
                    *claimed.entry(d2).or_insert(Decimal::ZERO) = c2 + m;
                }
            }
            if rem > Decimal::ZERO {
                if rem > pool { return None; }
                legs.push(Leg{rule:2, sell_day:dd, acq_day:-1, qty:rem});
                pool = pool - rem;
            }
        }
        // unmatched purchases of the day join the pool
        let c = claimed.get(&dd).cloned().unwrap_or(Decimal::ZERO);
        pool = pool + (b - sd - c);
    }
    Some(legs)
}

fn main() {
    let args: Vec<String> = std::env::args().collect();
    let mode = args.get(1).map(|s| s.as_str()).unwrap_or("Q");
    let shape = args.get(2).map(|s| s.as_str()).unwrap_or("BSBS");
    let t0 = std::time::Instant::now();
    let zero = Real::from_rational(0, 1);

    // skeleton: kinds + day offsets
    let days: Vec<i64> = args
        .get(3)
        .map(|s| s.split(',').map(|x| x.parse().unwrap()).collect())
        .unwrap_or(vec![0, 5, 15, 15]);
    let mut txs = Vec::new();
    let mut buys_q = Vec::new();
    let mut sells_q = Vec::new();
    let mut buy_cost = Decimal::ZERO;
    for (i, k) in shape.chars().enumerate() {
        let q = if mode.contains('Q') {
            let q = sym::fresh(&format!("q{i}"));
            sym::assume(&sym::term(q).gt(&zero));
            q
        } else {
            Decimal::from(10 + 3 * i as i64)
        };
        let p = if mode.contains('P') {
            let p = sym::fresh(&format!("p{i}"));
            sym::assume(&sym::term(p).ge(&zero));
            p
        } else {
            Decimal::from(2 + i as i64)
        };
        let f = if mode.contains('F') {
            let f = sym::fresh(&format!("f{i}"));
            sym::assume(&sym::term(f).ge(&zero));
            f
        } else {
            Decimal::from(1)
        };
        if k == 'C' { sym::assume(&sym::term(p).ge(&sym::term(f))); }
        let op = match k {
            'B' => {
                buys_q.push(q);
                buy_cost = buy_cost + q * p + f;
                Operation::Buy { amount: q, price: p, fees: f }
            }
            'S' => {
                sells_q.push(q);
                Operation::Sell { amount: q, price: p, fees: f }
            }
            'C' => { buy_cost = buy_cost - (p - f); Operation::CapReturn { amount: q, total_value: p, fees: f } }
            'A' => { buy_cost = buy_cost + p; Operation::Accumulation { amount: q, total_value: p, tax_paid: f } }
            'X' => Operation::Split { ratio: Decimal::from(2) },
            'U' => Operation::Unsplit { ratio: Decimal::from(2) },
            _ => panic!(),
        };
        txs.push(GbpTransaction { date: d(days[i]), ticker: "A".to_string(), operation: op });
    }

    // coverage predicate: for every day t, cum buys(<=t) >= cum sells(<=t)
    let kinds0: Vec<char> = shape.chars().collect();
    let mut cov = Bool::from_bool(true);
    {
        let mut ds: Vec<i64> = days.clone(); ds.sort(); ds.dedup();
        let mut bi = 0; let mut si = 0; let mut allq0 = Vec::new();
        for k in &kinds0 { if *k=='B' { allq0.push(buys_q[bi]); bi+=1; } else if *k=='S' { allq0.push(sells_q[si]); si+=1; } else { allq0.push(Decimal::ZERO); } }
        for t in ds {
            let mut b = Decimal::ZERO; let mut sl = Decimal::ZERO;
            for i in 0..kinds0.len() { if days[i] <= t { if kinds0[i]=='B' { b = b + allq0[i]; } else if kinds0[i]=='S' { sl = sl + allq0[i]; } } }
            cov = Bool::and(&[&cov, &sym::term(b).ge(&sym::term(sl))]);
        }
    }
    let txs_rev: Vec<GbpTransaction> = txs.iter().rev().cloned().collect();
    let mut m = Matcher::new();
    let res = m.process(txs);
    let mut line = String::new();
    match res {
        Ok((matches, pools)) => {
            // C02: legs sum to total sold
            let legs: Decimal = matches.iter().map(|m| m.match_detail.quantity).sum();
            let sold: Decimal = sells_q.iter().sum();
            let c02 = sym::prove(&sym::term(legs).eq(&sym::term(sold)));
            // C02b: closing holding
            let pool_q: Decimal = pools.values().map(|p| p.quantity).sum();
            let bought: Decimal = buys_q.iter().sum();
            let c02b = sym::prove(&sym::term(pool_q).eq(&sym::term(bought - sold)));
            // C03: cost conservation
            let leg_cost: Decimal = matches.iter().map(|m| m.match_detail.allowable_cost).sum();
            let pool_c: Decimal = pools.values().map(|p| p.total_cost).sum();
            let c03 = sym::prove(&sym::term(leg_cost + pool_c).eq(&sym::term(buy_cost)));
            let rules: Vec<String> = matches.iter().map(|m| format!("{:?}", m.match_detail.rule).chars().take(2).collect()).collect();
            let kinds: Vec<char> = shape.chars().collect();
            let bs_only = kinds.iter().all(|k| *k=='B' || *k=='S');
            let mut allq = Vec::new(); if bs_only { let mut bi=0; let mut si=0; for k in &kinds { if *k=='B' { allq.push(buys_q[bi]); bi+=1;} else { allq.push(sells_q[si]); si+=1; } } }
            let refl = if bs_only { reference(&kinds, &days, &allq) } else { None };
            let mut c01 = String::from("ref-rejects");
            if let Some(refl) = refl {
                // compare per (sell_day, rule, acq_day) quantity
                let base = d(0);
                let mut ok = Ok(());
                let mut implegs: Vec<(i64,u8,i64,Decimal)> = matches.iter().map(|m| {
                    let r = match m.match_detail.rule { cgt_core::MatchRule::SameDay=>0u8, cgt_core::MatchRule::BedAndBreakfast=>1, cgt_core::MatchRule::Section104=>2 };
                    let sd = (m.disposal_date - base).num_days();
                    let ad = m.match_detail.acquisition_date.map(|x| (x-base).num_days()).unwrap_or(-1);
                    (sd, r, ad, m.match_detail.quantity) }).collect();
                implegs.sort_by_key(|x| (x.0,x.1,x.2));
                let mut r2: Vec<(i64,u8,i64,Decimal)> = refl.iter().map(|l| (l.sell_day,l.rule,l.acq_day,l.qty)).collect();
                r2.sort_by_key(|x| (x.0,x.1,x.2));
                if implegs.len() != r2.len() { ok = Err(format!("leg count {} vs {}", implegs.len(), r2.len())); }
                else { for (a,b) in implegs.iter().zip(r2.iter()) {
                    if (a.0,a.1,a.2) != (b.0,b.1,b.2) { ok = Err(format!("leg key {:?} vs {:?}", (a.0,a.1,a.2),(b.0,b.1,b.2))); break; }
                    if let Err(e) = sym::prove(&sym::term(a.3).eq(&sym::term(b.3))) { ok = Err(format!("qty differs at {:?}: {}", (a.0,a.1,a.2), e)); break; }
                } }
                c01 = format!("{:?}", ok);
            }
            let c05 = sym::prove(&cov);
            let mut m2 = Matcher::new();
            let c06 = match m2.process(txs_rev) {
                Err(_) => "rev-rejected".to_string(),
                Ok((mm2, pools2)) => {
                    let key = |x: &cgt_core::matcher::MatchResult| (x.disposal_date, format!("{:?}", x.match_detail.rule), x.match_detail.acquisition_date);
                    let mut a: Vec<_> = matches.iter().collect(); a.sort_by_key(|x| key(x));
                    let mut b: Vec<_> = mm2.iter().collect(); b.sort_by_key(|x| key(x));
                    let mut r = String::from("same");
                    if a.len() != b.len() { r = format!("legcount {} vs {}", a.len(), b.len()); } else {
                        for (x, y) in a.iter().zip(b.iter()) {
                            if key(x) != key(y) { r = "legkey".into(); break; }
                            if sym::prove(&sym::term(x.match_detail.quantity).eq(&sym::term(y.match_detail.quantity))).is_err() { r = "qty".into(); break; }
                            if sym::prove(&sym::term(x.match_detail.allowable_cost).eq(&sym::term(y.match_detail.allowable_cost))).is_err() { r = "cost".into(); break; }
                        }
                        let pc1: Decimal = pools.values().map(|p| p.total_cost).sum(); let pc2: Decimal = pools2.values().map(|p| p.total_cost).sum();
                        if r == "same" && sym::prove(&sym::term(pc1).eq(&sym::term(pc2))).is_err() { r = "poolcost".into(); }
                    }
                    r
                }
            };
            line = format!("OK c05={:?} c06={} c01={} legs={} rules={:?} c02={:?} c02b={:?} c03={:?}", c05.is_ok(), c06, c01, matches.len(), rules, c02, c02b, c03);
        }
        Err(e) => {
            let s = e.to_string();
            let c05 = sym::prove(&cov.not());
            line = format!("ERR c05neg={:?} {}", c05.is_ok(), &s[..s.len().min(60)]);
        }
    }
    let (checks, forks) = sym::stats();
    let mut f = std::fs::OpenOptions::new().create(true).append(true).open("/tmp/symx-probe/paths.log").unwrap();
    writeln!(f, "{} checks={} forks={} t={:?}", line, checks, forks, t0.elapsed()).unwrap();
    let _ = Bool::from_bool(true);
    std::process::exit(0);
}
