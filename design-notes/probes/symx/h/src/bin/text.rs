use cgt_core::calculator::calculate;
use cgt_core::parser::parse_file;
use cgt_core::dsl::transactions_to_dsl;
use cgt_core::Config;
use rust_decimal::sym;
use std::io::Write;
use z3::ast::Real;
fn main() {
    let zero = Real::from_rational(0, 1);
    let mut v = Vec::new();
    for n in ["q0", "p0", "f0", "q1", "p1", "f1"] {
        let d = sym::fresh(n);
        if n.starts_with('q') { sym::assume(&sym::term(d).gt(&zero)); } else { sym::assume(&sym::term(d).ge(&zero)); }
        v.push(d);
    }
    let text = format!("2024-01-10 BUY A {} @ {} FEES {}\n# c\n2024-03-01 sell a {} @ {} GBP FEES {} GBP\n", v[0], v[1], v[2], v[3], v[4], v[5]);
    let txs = parse_file(&text).expect("parses");
    let back = transactions_to_dsl(&txs);
    let txs2 = parse_file(&back).expect("reparses");
    let same = txs == txs2;
    let cfg = Config::embedded().unwrap();
    let rep = calculate(&txs, None, None, &cfg);
    let mut line = match rep {
        Ok(r) => {
            let plain = cgt_formatter_plain::format(&r);
            let json = serde_json::to_string(&r.tax_years).unwrap();
            let l: Vec<&str> = plain.lines().filter(|l| l.contains("Result") || l.contains("2023/24")).collect();
            format!("OK roundtrip={} dsl={:?} plainlines={:?} json={}", same, back, l, &json[..json.len().min(300)])
        }
        Err(e) => format!("ERR {}", e),
    };
    line.truncate(900);
    let mut f = std::fs::OpenOptions::new().create(true).append(true).open("/tmp/symx-probe/text.log").unwrap();
    writeln!(f, "{}", line).unwrap();
    std::process::exit(0);
}
