#!/bin/bash
# usage: run1.sh MODE SHAPE DAYS
export LD_LIBRARY_PATH=/opt/veriftools/pyvenv/lib/python3.11/site-packages/z3/lib
d=$(mktemp -d /tmp/symx-probe/run.XXXXXX); cd $d
# harness writes to /tmp/symx-probe/paths.log (shared append) - fine
timeout 300 /tmp/symx-probe/h/target/release/h $1 $2 $3 >/dev/null 2>$d/err || echo "FAIL $2 $3 $(tail -n1 $d/err | cut -c1-100)" >> /tmp/symx-probe/fails.log
rm -rf $d
