//! PROTOTYPE symbolic stand-in for rust_decimal (feasibility probe only).
//! Decimal = handle into a thread-local arena of exact values:
//!   Const(num/den as i128)  or  Sym(z3 Real term)
//! Comparisons on symbolic values are decided by z3; when both outcomes are
//! feasible the process fork()s and each side continues with its own copy.

use std::cell::RefCell;
use std::cmp::Ordering;
use std::fmt;
use std::ops::*;
use std::str::FromStr;
use z3::ast::{Bool, Real};
use z3::{SatResult, Solver};

#[derive(Clone)]
enum Val {
    C(i128, i128), // num/den, den>0, reduced
    S(Real),
}

#[derive(Clone, Copy)]
pub struct Decimal {
    id: u32,
}

struct St {
    arena: Vec<Val>,
    solver: Solver,
    n_checks: u64,
    n_forks: u64,
    names: Vec<(String, u32)>,
}

thread_local! {
    static ST: RefCell<Option<St>> = RefCell::new(None);
}

fn gcd(a: i128, b: i128) -> i128 {
    let (mut a, mut b) = (a.abs(), b.abs());
    while b != 0 {
        let t = a % b;
        a = b;
        b = t;
    }
    a
}
fn norm(n: i128, d: i128) -> Val {
    assert!(d != 0, "division by zero constant");
    let g = gcd(n, d).max(1);
    let (mut n, mut d) = (n / g, d / g);
    if d < 0 {
        n = -n;
        d = -d;
    }
    Val::C(n, d)
}

fn with<R>(f: impl FnOnce(&mut St) -> R) -> R {
    ST.with(|s| {
        let mut b = s.borrow_mut();
        if b.is_none() {
            let solver = Solver::new();
            let mut p = z3::Params::new();
            p.set_u32("timeout", 5000);
            solver.set_params(&p);
            *b = Some(St {
                arena: vec![Val::C(0, 1), Val::C(1, 1)],
                solver,
                n_checks: 0,
                n_forks: 0,
                names: vec![],
            });
        }
        f(b.as_mut().unwrap())
    })
}

fn push(v: Val) -> Decimal {
    with(|s| {
        s.arena.push(v);
        Decimal {
            id: (s.arena.len() - 1) as u32,
        }
    })
}
fn get(d: Decimal) -> Val {
    with(|s| s.arena[d.id as usize].clone())
}
fn real(v: &Val) -> Real {
    match v {
        Val::C(n, d) => Real::from_rational_str(&n.to_string(), &d.to_string()).unwrap(),
        Val::S(r) => r.clone(),
    }
}

pub mod sym {
    use super::*;
    pub fn fresh(name: &str) -> Decimal {
        let d = push(Val::S(Real::new_const(name)));
        with(|s| s.names.push((name.to_string(), d.id)));
        d
    }
    pub fn term(d: Decimal) -> Real {
        real(&get(d))
    }
    pub fn assume(b: &Bool) {
        with(|s| s.solver.assert(b));
    }
    pub fn feasible() -> bool {
        with(|s| {
            s.n_checks += 1;
            s.solver.check() != SatResult::Unsat
        })
    }
    /// Prove `b` under the path condition. Returns None if it holds, Some(model text) if not.
    pub fn prove(b: &Bool) -> Result<(), String> {
        with(|s| {
            s.n_checks += 1;
            // fresh, non-incremental solver: lets z3 use its nlsat-based QF_NRA strategy
            let fresh = Solver::new();
            let mut pp = z3::Params::new();
            pp.set_u32("timeout", 20000);
            fresh.set_params(&pp);
            for a in s.solver.get_assertions() { fresh.assert(&a); }
            fresh.assert(&b.not());
            let res = fresh.check();
            if res == SatResult::Sat { s.solver.push(); s.solver.assert(&b.not()); let _ = s.solver.check(); }
            let res2 = res;
            match res2 {
                SatResult::Unsat => Ok(()),
                SatResult::Sat => {
                    let m = s.solver.get_model().unwrap();
                    let mut out = String::new();
                    for (n, id) in &s.names {
                        let t = real(&s.arena[*id as usize]);
                        let v = m.eval(&t, true).unwrap();
                        out.push_str(&format!("{}={} ", n, v));
                    }
                    Err(out)
                }
                SatResult::Unknown => Err("UNKNOWN".to_string()),
            }
        })
    }
    pub fn stats() -> (u64, u64) {
        with(|s| (s.n_checks, s.n_forks))
    }
    pub fn decide(c: &Bool) -> bool {
        super::decide(c)
    }
}

/// Decide a branch condition. Forks when both sides are feasible.
fn decide(c: &Bool) -> bool {
    if let Some(b) = c.as_bool() {
        return b;
    }
    let (t, f) = with(|s| {
        s.n_checks += 2;
        let t = s.solver.check_assumptions(&[c.clone()]) != SatResult::Unsat;
        let f = s.solver.check_assumptions(&[c.not()]) != SatResult::Unsat;
        (t, f)
    });
    match (t, f) {
        (true, false) => true,
        (false, true) => false,
        (false, false) => {
            // path condition infeasible: silently end this path
            unsafe { libc::_exit(0) }
        }
        (true, true) => {
            with(|s| s.n_forks += 1);
            let pid = unsafe { libc::fork() };
            if pid == 0 {
                with(|s| s.solver.assert(c));
                true
            } else {
                let mut status = 0;
                unsafe { libc::waitpid(pid, &mut status, 0) };
                if !(libc::WIFEXITED(status) && libc::WEXITSTATUS(status) == 0) {
                    eprintln!("child failed status={status}");
                    unsafe { libc::_exit(3) }
                }
                with(|s| s.solver.assert(&c.not()));
                false
            }
        }
    }
}

fn bin(a: Decimal, b: Decimal, cf: impl Fn(i128, i128, i128, i128) -> Option<Val>, sf: impl Fn(&Real, &Real) -> Real) -> Decimal {
    let (va, vb) = (get(a), get(b));
    if let (Val::C(an, ad), Val::C(bn, bd)) = (&va, &vb) {
        if let Some(v) = cf(*an, *ad, *bn, *bd) {
            return push(v);
        }
    }
    push(Val::S(sf(&real(&va), &real(&vb))))
}

impl Decimal {
    pub const ZERO: Decimal = Decimal { id: 0 };
    pub const ONE: Decimal = Decimal { id: 1 };

    pub fn new(num: i64, scale: u32) -> Decimal {
        push(norm(num as i128, 10i128.pow(scale)))
    }
    pub fn is_zero(&self) -> bool {
        *self == Decimal::ZERO
    }
    pub fn is_sign_negative(&self) -> bool {
        *self < Decimal::ZERO
    }
    pub fn abs(&self) -> Decimal {
        match get(*self) {
            Val::C(n, d) => push(Val::C(n.abs(), d)),
            Val::S(r) => {
                let z = Real::from_rational(0, 1);
                push(Val::S(r.ge(&z).ite(&r, &r.unary_minus())))
            }
        }
    }
    pub fn round_dp(&self, dp: u32) -> Decimal {
        // half-even at dp places
        match get(*self) {
            Val::C(n, d) => {
                let p = 10i128.pow(dp);
                // y = n*p/d ; floor
                let y_n = n * p;
                let fl = y_n.div_euclid(d);
                let rem = y_n.rem_euclid(d); // 0<=rem<d
                let twice = rem * 2;
                let r = if twice < d {
                    fl
                } else if twice > d {
                    fl + 1
                } else if fl % 2 == 0 {
                    fl
                } else {
                    fl + 1
                };
                push(norm(r, p))
            }
            Val::S(r) => {
                let p = Real::from_rational_str(&10i128.pow(dp).to_string(), "1").unwrap();
                let y = &r * &p;
                let fl = y.to_int();
                let flr = Real::from_int(&fl);
                let frac = &y - &flr;
                let half = Real::from_rational(1, 2);
                let one = Real::from_rational(1, 1);
                let even = fl.modulo(&z3::ast::Int::from_i64(2)).eq(&z3::ast::Int::from_i64(0));
                let up = &flr + &one;
                let res = frac.lt(&half).ite(&flr, &frac.gt(&half).ite(&up, &even.ite(&flr, &up)));
                push(Val::S(&res / &p))
            }
        }
    }
    pub fn min(self, o: Decimal) -> Decimal {
        let (a, b) = (get(self), get(o));
        match (&a, &b) {
            (Val::C(an, ad), Val::C(bn, bd)) => {
                if an * bd <= bn * ad {
                    self
                } else {
                    o
                }
            }
            _ => {
                let (ra, rb) = (real(&a), real(&b));
                push(Val::S(ra.le(&rb).ite(&ra, &rb)))
            }
        }
    }
    pub fn max(self, o: Decimal) -> Decimal {
        let (a, b) = (get(self), get(o));
        match (&a, &b) {
            (Val::C(an, ad), Val::C(bn, bd)) => {
                if an * bd >= bn * ad {
                    self
                } else {
                    o
                }
            }
            _ => {
                let (ra, rb) = (real(&a), real(&b));
                push(Val::S(ra.ge(&rb).ite(&ra, &rb)))
            }
        }
    }
}

#[derive(Clone, Copy, Debug, PartialEq, Eq)]
pub enum RoundingStrategy { MidpointNearestEven, MidpointAwayFromZero, MidpointTowardZero, ToZero, AwayFromZero, ToNegativeInfinity, ToPositiveInfinity }

impl Decimal {
    pub fn round_dp_with_strategy(&self, dp: u32, st: RoundingStrategy) -> Decimal {
        match st {
            RoundingStrategy::MidpointNearestEven => self.round_dp(dp),
            RoundingStrategy::MidpointAwayFromZero => {
                match get(*self) {
                    Val::C(n, d) => {
                        let p = 10i128.pow(dp);
                        let neg = n < 0; let y = n.abs() * p;
                        let fl = y / d; let rem = y % d;
                        let r = if rem * 2 >= d { fl + 1 } else { fl };
                        push(norm(if neg { -r } else { r }, p))
                    }
                    Val::S(r) => {
                        let p = Real::from_rational_str(&10i128.pow(dp).to_string(), "1").unwrap();
                        let z = Real::from_rational(0, 1);
                        let a = r.ge(&z).ite(&r, &r.unary_minus());
                        let y = &a * &p;
                        let half = Real::from_rational(1, 2);
                        let fl = Real::from_int(&(&y + &half).to_int());
                        let res = &fl / &p;
                        push(Val::S(r.ge(&z).ite(&res, &res.unary_minus())))
                    }
                }
            }
            _ => panic!("strategy not modelled"),
        }
    }
    pub fn sym_id(&self) -> Option<u32> { match get(*self) { Val::S(_) => Some(self.id), _ => None } }
}

impl Default for Decimal {
    fn default() -> Self {
        Decimal::ZERO
    }
}

macro_rules! from_int {
    ($($t:ty),*) => {$(
        impl From<$t> for Decimal { fn from(v: $t) -> Decimal { push(Val::C(v as i128, 1)) } }
    )*};
}
from_int!(i8, i16, i32, i64, u8, u16, u32, u64, usize, isize);

impl Add for Decimal {
    type Output = Decimal;
    fn add(self, o: Decimal) -> Decimal {
        bin(self, o, |an, ad, bn, bd| Some(norm(an * bd + bn * ad, ad * bd)), |a, b| a + b)
    }
}
impl Sub for Decimal {
    type Output = Decimal;
    fn sub(self, o: Decimal) -> Decimal {
        bin(self, o, |an, ad, bn, bd| Some(norm(an * bd - bn * ad, ad * bd)), |a, b| a - b)
    }
}
impl Mul for Decimal {
    type Output = Decimal;
    fn mul(self, o: Decimal) -> Decimal {
        bin(self, o, |an, ad, bn, bd| Some(norm(an * bn, ad * bd)), |a, b| a * b)
    }
}
impl Div for Decimal {
    type Output = Decimal;
    fn div(self, o: Decimal) -> Decimal {
        // real rust_decimal panics on division by zero: model as a path-ending failure
        if o == Decimal::ZERO {
            panic!("Division by zero");
        }
        bin(self, o, |an, ad, bn, bd| Some(norm(an * bd, ad * bn)), |a, b| a / b)
    }
}
impl Neg for Decimal {
    type Output = Decimal;
    fn neg(self) -> Decimal {
        Decimal::ZERO - self
    }
}
macro_rules! refops {
    ($tr:ident, $m:ident) => {
        impl<'a> $tr<&'a Decimal> for Decimal { type Output = Decimal; fn $m(self, o: &Decimal) -> Decimal { $tr::$m(self, *o) } }
        impl<'a> $tr<Decimal> for &'a Decimal { type Output = Decimal; fn $m(self, o: Decimal) -> Decimal { $tr::$m(*self, o) } }
        impl<'a, 'b> $tr<&'b Decimal> for &'a Decimal { type Output = Decimal; fn $m(self, o: &Decimal) -> Decimal { $tr::$m(*self, *o) } }
    };
}
refops!(Add, add);
refops!(Sub, sub);
refops!(Mul, mul);
refops!(Div, div);
macro_rules! assignops {
    ($tr:ident, $m:ident, $op:ident, $opm:ident) => {
        impl $tr for Decimal { fn $m(&mut self, o: Decimal) { *self = $op::$opm(*self, o); } }
        impl<'a> $tr<&'a Decimal> for Decimal { fn $m(&mut self, o: &Decimal) { *self = $op::$opm(*self, *o); } }
    };
}
assignops!(AddAssign, add_assign, Add, add);
assignops!(SubAssign, sub_assign, Sub, sub);
assignops!(MulAssign, mul_assign, Mul, mul);
assignops!(DivAssign, div_assign, Div, div);

impl std::iter::Sum for Decimal {
    fn sum<I: Iterator<Item = Decimal>>(iter: I) -> Decimal {
        iter.fold(Decimal::ZERO, |a, b| a + b)
    }
}
impl<'a> std::iter::Sum<&'a Decimal> for Decimal {
    fn sum<I: Iterator<Item = &'a Decimal>>(iter: I) -> Decimal {
        iter.fold(Decimal::ZERO, |a, b| a + *b)
    }
}

fn cmp_bool(a: Decimal, b: Decimal, cf: impl Fn(Ordering) -> bool, sf: impl Fn(&Real, &Real) -> Bool) -> bool {
    let (va, vb) = (get(a), get(b));
    if let (Val::C(an, ad), Val::C(bn, bd)) = (&va, &vb) {
        return cf((an * bd).cmp(&(bn * ad)));
    }
    decide(&sf(&real(&va), &real(&vb)))
}

impl PartialEq for Decimal {
    fn eq(&self, o: &Decimal) -> bool {
        if self.id == o.id {
            return true;
        }
        cmp_bool(*self, *o, |c| c == Ordering::Equal, |a, b| a.eq(b))
    }
}
impl Eq for Decimal {}
impl PartialOrd for Decimal {
    fn partial_cmp(&self, o: &Decimal) -> Option<Ordering> {
        Some(self.cmp(o))
    }
    fn lt(&self, o: &Decimal) -> bool {
        cmp_bool(*self, *o, |c| c == Ordering::Less, |a, b| a.lt(b))
    }
    fn le(&self, o: &Decimal) -> bool {
        cmp_bool(*self, *o, |c| c != Ordering::Greater, |a, b| a.le(b))
    }
    fn gt(&self, o: &Decimal) -> bool {
        cmp_bool(*self, *o, |c| c == Ordering::Greater, |a, b| a.gt(b))
    }
    fn ge(&self, o: &Decimal) -> bool {
        cmp_bool(*self, *o, |c| c != Ordering::Less, |a, b| a.ge(b))
    }
}
impl Ord for Decimal {
    fn cmp(&self, o: &Decimal) -> Ordering {
        if self.lt(o) {
            Ordering::Less
        } else if self == o {
            Ordering::Equal
        } else {
            Ordering::Greater
        }
    }
    fn min(self, o: Decimal) -> Decimal {
        Decimal::min(self, o)
    }
    fn max(self, o: Decimal) -> Decimal {
        Decimal::max(self, o)
    }
}

#[derive(Debug, Clone, PartialEq)]
pub enum Error {
    ErrorString(String),
}
impl fmt::Display for Error {
    fn fmt(&self, f: &mut fmt::Formatter<'_>) -> fmt::Result {
        write!(f, "{:?}", self)
    }
}
impl std::error::Error for Error {}

impl FromStr for Decimal {
    type Err = Error;
    fn from_str(s: &str) -> Result<Decimal, Error> {
        let s = s.trim();
        if let Some(rest) = s.strip_prefix("9876543210") {
            if let Ok(id) = rest.parse::<u32>() { return Ok(Decimal { id }); }
        }
        if let Some(rest) = s.strip_prefix("-9876543210") {
            if let Ok(id) = rest.parse::<u32>() { return Ok(Decimal::ZERO - Decimal { id }); }
        }
        let (neg, body) = match s.strip_prefix('-') {
            Some(r) => (true, r),
            None => (false, s.strip_prefix('+').unwrap_or(s)),
        };
        let (ip, fp) = match body.split_once('.') {
            Some((a, b)) => (a, b),
            None => (body, ""),
        };
        if ip.is_empty() && fp.is_empty() || !ip.chars().all(|c| c.is_ascii_digit()) || !fp.chars().all(|c| c.is_ascii_digit()) {
            return Err(Error::ErrorString(format!("Invalid decimal: {s}")));
        }
        let digits = format!("{ip}{fp}");
        let n: i128 = digits.parse().map_err(|_| Error::ErrorString("too big".into()))?;
        let n = if neg { -n } else { n };
        Ok(push(norm(n, 10i128.pow(fp.len() as u32))))
    }
}

impl fmt::Display for Decimal {
    fn fmt(&self, f: &mut fmt::Formatter<'_>) -> fmt::Result {
        match get(*self) {
            Val::C(n, d) => {
                if d == 1 {
                    write!(f, "{n}")
                } else {
                    let mut dd = d; let mut k = 0u32; let mut nn = n;
                    while dd % 10 != 0 || dd != 1 { if dd == 1 { break; } if dd % 2 == 0 { dd /= 2; nn *= 5; k += 1; } else if dd % 5 == 0 { dd /= 5; nn *= 2; k += 1; } else { return write!(f, "{}/{}", n, d); } }
                    let sgn = if nn < 0 { "-" } else { "" }; let a = nn.abs(); let p = 10i128.pow(k);
                    write!(f, "{}{}.{:0w$}", sgn, a / p, a % p, w = k as usize)
                }
            }
            Val::S(_) => write!(f, "9876543210{:06}", self.id),
        }
    }
}
impl fmt::Debug for Decimal {
    fn fmt(&self, f: &mut fmt::Formatter<'_>) -> fmt::Result {
        fmt::Display::fmt(self, f)
    }
}

use serde_crate as serde;
impl serde::Serialize for Decimal {
    fn serialize<S: serde::Serializer>(&self, s: S) -> Result<S::Ok, S::Error> {
        s.serialize_str(&self.to_string())
    }
}
impl<'de> serde::Deserialize<'de> for Decimal {
    fn deserialize<D: serde::Deserializer<'de>>(d: D) -> Result<Decimal, D::Error> {
        struct V;
        impl<'de> serde::de::Visitor<'de> for V {
            type Value = Decimal;
            fn expecting(&self, f: &mut fmt::Formatter) -> fmt::Result {
                f.write_str("a decimal")
            }
            fn visit_str<E: serde::de::Error>(self, v: &str) -> Result<Decimal, E> {
                Decimal::from_str(v).map_err(E::custom)
            }
            fn visit_i64<E: serde::de::Error>(self, v: i64) -> Result<Decimal, E> {
                Ok(Decimal::from(v))
            }
            fn visit_u64<E: serde::de::Error>(self, v: u64) -> Result<Decimal, E> {
                Ok(Decimal::from(v))
            }
            fn visit_f64<E: serde::de::Error>(self, v: f64) -> Result<Decimal, E> {
                Decimal::from_str(&v.to_string()).map_err(E::custom)
            }
        }
        d.deserialize_any(V)
    }
}

pub mod prelude {
    pub use super::Decimal;
}
