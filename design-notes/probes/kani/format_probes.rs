#[cfg(kani)]
mod proofs {
    use rust_decimal::Decimal;

    #[kani::proof]
    #[kani::unwind(8)]
    fn tax_year_fmt() {
        let y: u16 = kani::any();
        kani::assume(y >= 1900 && y <= 2100);
        let s = cgt_format::format_tax_year(y);
        let b = s.as_bytes();
        assert!(b.len() == 7);
        assert!(b[4] == b'/');
        let yy = (y + 1) % 100;
        assert!(b[5] == b'0' + (yy / 10) as u8);
        assert!(b[6] == b'0' + (yy % 10) as u8);
        std::mem::forget(s);
    }

    #[kani::proof]
    #[kani::unwind(12)]
    fn gbp_fmt_small() {
        let lo: u32 = kani::any();
        kani::assume(lo < 2_000_000);
        let neg: bool = kani::any();
        let d = Decimal::from_parts(lo, 0, 0, neg, 3);
        let s = cgt_format::format_gbp(d);
        let b = s.as_bytes();
        // ends with .dd
        assert!(b.len() >= 6);
        assert!(b[b.len() - 3] == b'.');
        std::mem::forget(s);
    }
}
