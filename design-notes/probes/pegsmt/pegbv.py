#!/usr/bin/env python3
"""PROTOTYPE (bit-vector variant): pest grammar -> QF_BV. Positions 8-bit (255=fail)."""
import re, sys, time
from z3 import *
from pegsmt import P, load

PW = 8; FAILV = 255
def PV(x): return BitVecVal(x, PW)
def KL(x): return BitVecVal(x, 4)
def KC(x): return BitVecVal(x, 32)
T_ = BoolVal(True)

class Enc:
    def __init__(s, rules, arms, L, tag):
        s.rules, s.arms, s.L, s.tag = rules, arms, L, tag
        s.c = [BitVec(f'{tag}c{i}', 8) for i in range(L)]
        s.n = BitVec(f'{tag}n', PW)
        s.cons = [ULE(s.n, L)] + [ULT(x, 128) for x in s.c]
        s.rid = {r: k + 1 for k, r in enumerate(rules)}
        s.rid['EOI'] = len(s.rid) + 1
        assert len(s.rid) + 1 < 32
        s.memo = {}; s._skip = None
        s.FAIL = (PV(FAILV), KL(0), KC(0), T_)
    def ok(s, e): return e != FAILV
    def sel(s, T, idx, lo=0):
        out = list(s.FAIL)
        for i in range(s.L, lo - 1, -1):
            cnd = idx == i
            out = [If(cnd, T[i][k], out[k]) for k in range(4)]
        return tuple(out)
    def seli(s, arr, idx, lo):
        out = PV(FAILV)
        for i in range(s.L, lo - 1, -1):
            out = If(idx == i, arr[i], out)
        return out
    def concat(s, a, b):
        la, ca, lb, cb = a[1], a[2], b[1], b[2]
        sh = ZeroExt(28, lb) * 5
        return (la + lb, (ca << sh) | cb)
    def then(s, first, T2):
        r2 = s.sel(T2, first[0])
        l, c = s.concat(first, r2)
        return (If(s.ok(first[0]), r2[0], PV(FAILV)), l, c, And(first[3], r2[3]))
    def charclass(s, pred):
        T = []
        for i in range(s.L + 1):
            if i < s.L: T.append((If(And(UGT(s.n, i), pred(s.c[i])), PV(i + 1), PV(FAILV)), KL(0), KC(0), T_))
            else: T.append(s.FAIL)
        return T
    def skip(s):
        if s._skip is not None: return s._skip
        L = s.L
        wsT = s.table(('id', 'WHITESPACE'), True)
        cmT = s.table(s.rules['COMMENT'][1], True)
        W = [None] * (L + 1)
        for i in range(L, -1, -1):
            if i == L: W[i] = PV(L); continue
            e = wsT[i][0]
            W[i] = If(s.ok(e), s.seli(W, e, i + 1), PV(i))
        S2 = [None] * (L + 1); NC = [None] * (L + 1)
        for p in range(L, -1, -1):
            if p == L: S2[p] = PV(L); NC[p] = KL(0); continue
            e = cmT[p][0]
            w = s.seli(W, e, p + 1)
            S2[p] = If(s.ok(e), s.seli(S2, w, p + 1), PV(p))
            nxt = KL(0)
            for i in range(L, p, -1): nxt = If(w == i, NC[i], nxt)
            NC[p] = If(s.ok(e), If(nxt == 15, nxt, nxt + 1), KL(0))
        T = []
        cid = s.rid['COMMENT']
        for i in range(L + 1):
            end = s.seli(S2, W[i], i)
            nc = KL(0)
            for j in range(L, i - 1, -1): nc = If(W[i] == j, NC[j], nc)
            code = If(nc == 0, KC(0), If(nc == 1, KC(cid), KC(cid * 32 + cid)))
            T.append((end, If(UGT(nc, 2), KL(2), nc), code, ULE(nc, 2)))
        s._skip = T
        return T
    def table(s, e, atomic):
        key = (repr(e), atomic)
        if key not in s.memo: s.memo[key] = s._table(e, atomic)
        return s.memo[key]
    def _table(s, e, atomic):
        L = s.L; k = e[0]
        if k in ('str', 'istr'):
            st = e[1]; T = []
            for i in range(L + 1):
                if i + len(st) > L: T.append(s.FAIL); continue
                conds = [UGE(s.n, i + len(st))]
                for j, ch in enumerate(st):
                    if k == 'istr' and ch.isalpha(): conds.append(Or(s.c[i + j] == ord(ch.upper()), s.c[i + j] == ord(ch.lower())))
                    else: conds.append(s.c[i + j] == ord(ch))
                T.append((If(And(conds), PV(i + len(st)), PV(FAILV)), KL(0), KC(0), T_))
            return T
        if k == 'id':
            name = e[1]
            dig = lambda c: And(UGE(c, 48), ULE(c, 57))
            alp = lambda c: Or(And(UGE(c, 65), ULE(c, 90)), And(UGE(c, 97), ULE(c, 122)))
            if name == 'ASCII_DIGIT': return s.charclass(dig)
            if name == 'ASCII_ALPHA': return s.charclass(alp)
            if name == 'ASCII_ALPHANUMERIC': return s.charclass(lambda c: Or(dig(c), alp(c)))
            if name == 'ANY': return s.charclass(lambda c: T_)
            if name == 'SOI': return [(PV(0) if i == 0 else PV(FAILV), KL(0), KC(0), T_) for i in range(L + 1)]
            if name == 'EOI': return [(If(s.n == i, PV(i), PV(FAILV)), KL(1), KC(s.rid['EOI']), T_) for i in range(L + 1)]
            mod, body = s.rules[name]
            inner_atomic = True if mod in ('@', '$') else (False if mod == '!' else atomic)
            Tb = s.table(body, inner_atomic)
            if atomic: return [(t[0], KL(0), KC(0), t[3]) for t in Tb]
            if mod == '_': return Tb
            arms = s.arms.get(name); T = []
            for i in range(L + 1):
                end, kl, kc, ok = Tb[i]
                if arms is None: valid = T_
                else:
                    alts = []
                    for arm in arms:
                        code = 0
                        for r in arm: code = code * 32 + s.rid[r]
                        alts.append(And(kl == len(arm), kc == code))
                    valid = Or(alts)
                kids_ok = ok if mod != '@' else T_
                T.append((end, KL(1), KC(s.rid[name]), And(kids_ok, valid)))
            return T
        if k == 'seq':
            Ta = s.table(e[1], atomic); Tb = s.table(e[2], atomic); T = []
            if atomic:
                for i in range(L + 1): T.append(s.then(Ta[i], Tb))
            else:
                Sk = s.skip()
                for i in range(L + 1): T.append(s.then(s.then(Ta[i], Sk), Tb))
            return T
        if k == 'choice':
            Ta = s.table(e[1], atomic); Tb = s.table(e[2], atomic)
            return [tuple(If(s.ok(Ta[i][0]), Ta[i][j], Tb[i][j]) for j in range(4)) for i in range(L + 1)]
        if k == 'opt':
            Ta = s.table(e[1], atomic)
            return [(If(s.ok(Ta[i][0]), Ta[i][0], PV(i)), If(s.ok(Ta[i][0]), Ta[i][1], KL(0)), If(s.ok(Ta[i][0]), Ta[i][2], KC(0)), If(s.ok(Ta[i][0]), Ta[i][3], T_)) for i in range(L + 1)]
        if k == 'not':
            Ta = s.table(e[1], atomic)
            return [(If(s.ok(Ta[i][0]), PV(FAILV), PV(i)), KL(0), KC(0), T_) for i in range(L + 1)]
        if k == 'rep':
            cur = e[1]
            for _ in range(e[2] - 1): cur = ('seq', cur, e[1])
            return s.table(cur, atomic)
        if k in ('star', 'plus'):
            Ta = s.table(e[1], atomic)
            G = [None] * (L + 1)
            Sk = None if atomic else s.skip()
            for i in range(L, -1, -1):
                if i == L: G[i] = (PV(i), KL(0), KC(0), T_); continue
                if atomic: nxt = Ta[i]
                else:
                    mid = Sk[i]
                    r = s.sel(Ta, mid[0], i)
                    l, c = s.concat(mid, r)
                    nxt = (If(s.ok(mid[0]), r[0], PV(FAILV)), l, c, And(mid[3], r[3]))
                cont = s.sel(G, nxt[0], i + 1)
                l2, c2 = s.concat(nxt, cont)
                good = And(s.ok(nxt[0]), UGT(nxt[0], i))
                G[i] = (If(good, cont[0], PV(i)), If(good, l2, KL(0)), If(good, c2, KC(0)), If(good, And(nxt[3], cont[3]), T_))
            T = []
            for i in range(L + 1):
                a = Ta[i]
                cont = s.sel(G, a[0])
                l, c = s.concat(a, cont)
                g = s.ok(a[0])
                if k == 'star': T.append((If(g, cont[0], PV(i)), If(g, l, KL(0)), If(g, c, KC(0)), If(g, And(a[3], cont[3]), T_)))
                else: T.append((If(g, cont[0], PV(FAILV)), l, c, And(a[3], cont[3])))
            return T
        raise Exception(k)

def accept(enc):
    end, kl, kc, ok = enc.table(('id', 'transaction_list'), False)[0]
    return And(end != FAILV, ok)

def fix_string(enc, text):
    return [enc.n == len(text)] + [enc.c[i] == ord(ch) for i, ch in enumerate(text)]

if __name__ == '__main__':
    rules, arms = load()
    L = int(sys.argv[1]) if len(sys.argv) > 1 else 40
    t0 = time.time()
    enc = Enc(rules, arms, L, 'a'); acc = accept(enc)
    print('encode', round(time.time() - t0, 1), flush=True)
    tests = [("2024-01-01 BUY A 1 @ 2", True), ("2024-01-01 BUY A 1 @ 2 # c", False), ("2024-01-01 BUY A 1 @ 2 GBP # c", False),
             ("2024-01-01 SPLIT A RATIO 2 # c", True), ("2024-01-01 BUY A 1 @ 2 FEES 1 GBP # c", True), ("# hi\n\n2024-01-01 buy a 1 @ 2\r\n", True),
             ("2024-01-01 BUY A 1 @ 2 TAX", False), ("2024-01-01 BUY A 1 @ 2 USD FEES 1 EUR", True), ("2024-01-01 DIVIDEND A TOTAL 5 TAX 1", True), ("2024-01-01  BUY\tA 1 @2", True), ("2024-1-01 BUY A 1 @ 2", False), ("", True),
             ("2024-01-01 BUY A 1 @ 2 #a\n#b\n2024-01-02 SELL A 1 @ 2", False), ("2024-01-01 SPLIT A RATIO 2 #a\n #b\n2024-01-02 SELL A 1 @ 2", True)]
    for txt, exp in tests:
        if len(txt) > L: continue
        s = Solver(); s.add(enc.cons); s.add(fix_string(enc, txt)); s.add(acc)
        t1 = time.time(); r = s.check()
        print(repr(txt), r, 'expected', 'sat' if exp else 'unsat', round(time.time() - t1, 2), '' if (r == sat) == exp else '  <<< MISMATCH', flush=True)
