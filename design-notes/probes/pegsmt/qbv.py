import sys, time
from z3 import *
from pegsmt import load
from pegbv import *

L = int(sys.argv[1]); which = sys.argv[2]
rules, arms = load()
t0 = time.time()
A = Enc(rules, arms, L, 'a'); accA = accept(A)
B = Enc(rules, arms, L, 'b'); accB = accept(B)
print('encoded', round(time.time() - t0, 1), flush=True)
s = SolverFor('QF_BV')
s.add(A.cons); s.add(B.cons)
noline = [And(A.c[i] != 10, A.c[i] != 13) for i in range(L)]
dig = lambda c: And(UGE(c, 48), ULE(c, 57))
if which == 'comment':
    s.add(accA, dig(A.c[0]), UGE(A.n, 1), ULE(A.n, L - 3))
    s.add(noline); s.add([A.c[i] != 35 for i in range(L)])
    s.add(B.n == A.n + 3)
    for i in range(L):
        s.add(If(UGT(A.n, i), B.c[i] == A.c[i], If(A.n == i, B.c[i] == 32, If(A.n + 1 == i, B.c[i] == 35, If(A.n + 2 == i, B.c[i] == 120, True)))))
    s.add(Not(accB))
elif which == 'space':
    p = BitVec('p', 8)
    s.add(accA, dig(A.c[0]), ULE(A.n, L - 1), ULT(p, A.n))
    s.add(noline); s.add([A.c[i] != 35 for i in range(L)])
    s.add(Or([And(p == i, Or(A.c[i] == 32, A.c[i] == 9)) for i in range(L)]))
    s.add(B.n == A.n + 1)
    for i in range(L):
        s.add(If(UGE(p, i), B.c[i] == A.c[i], If(ULE(i, A.n), B.c[i] == (A.c[i - 1] if i > 0 else A.c[0]), True)))
    s.add(Not(accB))
elif which == 'case':
    # flip case of one letter inside a keyword position? simpler: upper-case twin: B = A with every a-z letter upper-cased; both accepted or both rejected
    s.add(dig(A.c[0]), B.n == A.n)
    s.add(noline)
    for i in range(L):
        low = And(UGE(A.c[i], 97), ULE(A.c[i], 122))
        s.add(B.c[i] == If(low, A.c[i] - 32, A.c[i]))
    s.add([A.c[i] != 35 for i in range(L)])
    s.add(accA != accB)
t1 = time.time()
r = s.check()
print(which, r, round(time.time() - t1, 1), 's', flush=True)
if r == sat:
    m = s.model()
    n = m.eval(A.n).as_long(); nb = m.eval(B.n).as_long()
    print(repr(''.join(chr(m.eval(A.c[i], True).as_long()) for i in range(n))))
    print(repr(''.join(chr(m.eval(B.c[i], True).as_long()) for i in range(nb))))
