import sys, time
from z3 import *
from pegsmt import *

L = int(sys.argv[1]); which = sys.argv[2]
rules, arms = load()
t0 = time.time()
A = Enc(rules, arms, L, 'a'); accA = accept(A)
B = Enc(rules, arms, L, 'b'); accB = accept(B)
print('encoded', round(time.time() - t0, 1), flush=True)
s = Solver()
s.add(A.cons); s.add(B.cons)
noline = [And(A.c[i] != 10, A.c[i] != 13) for i in range(L)]
if which == 'comment':
    # s accepted, one line, contains a transaction (starts with digit), no '#'; s' = s + " #x" rejected
    s.add(accA, A.c[0] >= 48, A.c[0] <= 57, A.n >= 1, A.n + 3 <= L)
    s.add(noline); s.add([A.c[i] != 35 for i in range(L)])
    s.add(B.n == A.n + 3)
    for i in range(L):
        s.add(If(A.n > i, B.c[i] == A.c[i], If(A.n == i, B.c[i] == 32, If(A.n + 1 == i, B.c[i] == 35, If(A.n + 2 == i, B.c[i] == 120, True)))))
    s.add(Not(accB))
elif which == 'space':
    # insert a space at symbolic position p where s[p] is already a space or tab (i.e. widen an existing gap): must stay accepted
    p = Int('p')
    s.add(accA, A.c[0] >= 48, A.c[0] <= 57, A.n + 1 <= L, p >= 0, p < A.n)
    s.add(noline); s.add([A.c[i] != 35 for i in range(L)])
    s.add(Or([And(p == i, Or(A.c[i] == 32, A.c[i] == 9)) for i in range(L)]))
    s.add(B.n == A.n + 1)
    for i in range(L):
        s.add(If(p >= i, B.c[i] == A.c[i], If(i <= A.n, B.c[i] == A.c[i - 1] if i > 0 else True, True)))
    s.add(Not(accB))
t1 = time.time()
r = s.check()
print(which, r, round(time.time() - t1, 1), 's', flush=True)
if r == sat:
    m = s.model()
    n = m.eval(A.n).as_long(); nb = m.eval(B.n).as_long()
    print(repr(''.join(chr(m.eval(A.c[i], True).as_long()) for i in range(n))))
    print(repr(''.join(chr(m.eval(B.c[i], True).as_long()) for i in range(nb))))
