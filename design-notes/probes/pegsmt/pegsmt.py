#!/usr/bin/env python3
"""PROTOTYPE: pest grammar -> SMT (bounded length), with pest's implicit-skip semantics
and pest_consume match_nodes arms. Feasibility probe only."""
import re, sys, time
from z3 import *

# ---------------------------------------------------------------- grammar parser
class P:
    def __init__(s, text):
        s.t = text; s.i = 0
    def ws(s):
        while s.i < len(s.t):
            if s.t[s.i].isspace(): s.i += 1
            elif s.t.startswith('//', s.i):
                while s.i < len(s.t) and s.t[s.i] != '\n': s.i += 1
            else: break
    def peek(s, k): s.ws(); return s.t.startswith(k, s.i)
    def eat(s, k):
        s.ws()
        assert s.t.startswith(k, s.i), (k, s.t[s.i:s.i+30])
        s.i += len(k)
    def ident(s):
        s.ws(); m = re.match(r'[A-Za-z_][A-Za-z0-9_]*', s.t[s.i:]); assert m, s.t[s.i:s.i+30]
        s.i += m.end(); return m.group(0)
    def string(s):
        s.ws(); assert s.t[s.i] == '"'; j = s.i + 1; out = ''
        while s.t[j] != '"':
            if s.t[j] == '\\':
                j += 1; out += {'n': '\n', 'r': '\r', 't': '\t', '\\': '\\', '"': '"'}[s.t[j]]
            else: out += s.t[j]
            j += 1
        s.i = j + 1; return out
    def rules(s):
        rs = {}
        while True:
            s.ws()
            if s.i >= len(s.t): break
            name = s.ident(); s.eat('=')
            s.ws(); mod = ''
            if s.t[s.i] in '_@$!': mod = s.t[s.i]; s.i += 1
            s.eat('{'); e = s.choice(); s.eat('}')
            rs[name] = (mod, e)
        return rs
    def choice(s):
        e = s.seq()
        while s.peek('|'):
            s.eat('|'); e = ('choice', e, s.seq())
        return e
    def seq(s):
        e = s.prefix()
        while s.peek('~'):
            s.eat('~'); e = ('seq', e, s.prefix())
        return e
    def prefix(s):
        if s.peek('!'): s.eat('!'); return ('not', s.prefix())
        if s.peek('&'): s.eat('&'); return ('and', s.prefix())
        return s.postfix()
    def postfix(s):
        e = s.atom()
        while True:
            s.ws()
            c = s.t[s.i]
            if c == '?': s.i += 1; e = ('opt', e)
            elif c == '*': s.i += 1; e = ('star', e)
            elif c == '+': s.i += 1; e = ('plus', e)
            elif c == '{':
                m = re.match(r'\{\s*(\d+)\s*\}', s.t[s.i:]); assert m
                s.i += m.end(); e = ('rep', e, int(m.group(1)))
            else: break
        return e
    def atom(s):
        s.ws(); c = s.t[s.i]
        if c == '(':
            s.eat('('); e = s.choice(); s.eat(')'); return e
        if c == '"': return ('str', s.string())
        if c == '^': s.i += 1; return ('istr', s.string())
        return ('id', s.ident())

# ---------------------------------------------------------------- encoder
class Enc:
    """Tables over concrete start positions 0..L of tuples (end, klen, kcode, ok)."""
    def __init__(s, rules, arms, L, tag):
        s.rules, s.arms, s.L, s.tag = rules, arms, L, tag
        s.c = [Int(f'{tag}c{i}') for i in range(L)]
        s.n = Int(f'{tag}n')
        s.cons = [And(s.n >= 0, s.n <= L)] + [And(x >= 0, x < 128) for x in s.c]
        s.rid = {r: k + 1 for k, r in enumerate(rules)}
        s.rid['EOI'] = len(s.rid) + 1
        s.B = len(s.rid) + 2
        s.memo = {}
        s.node_spans = {}   # (rule) -> list of (start i, cond matched-as-node, end)
        s._skip = None
    FAIL = (IntVal(-1), IntVal(0), IntVal(0), BoolVal(True))
    def inb(s, i): return s.n > i
    def sel(s, T, idx):
        """select T[idx] for symbolic idx (idx<0 => fail)"""
        out = list(s.FAIL)
        for i in range(s.L, -1, -1):
            cnd = idx == i
            out = [If(cnd, T[i][k], out[k]) for k in range(4)]
        return tuple(out)
    def concat(s, a, b):
        # kids concat: (la, ca) ++ (lb, cb)
        la, ca, lb, cb = a[1], a[2], b[1], b[2]
        code = cb + ca  # lb == 0 case placeholder
        expr = ca
        # ca * B^lb
        shifted = If(lb == 0, ca, If(lb == 1, ca * s.B, If(lb == 2, ca * s.B**2, If(lb == 3, ca * s.B**3, ca * s.B**4))))
        return (la + lb, shifted + cb)
    def then(s, first, T2):
        """sequence: after `first` (a tuple at some start) continue with table T2 at its end"""
        r2 = s.sel(T2, first[0])
        l, c = s.concat(first, r2)
        return (If(first[0] >= 0, r2[0], -1), l, c, And(first[3], r2[3]))
    def charclass(s, pred):
        T = []
        for i in range(s.L + 1):
            if i < s.L:
                T.append((If(And(s.inb(i), pred(s.c[i])), i + 1, -1), IntVal(0), IntVal(0), BoolVal(True)))
            else: T.append(s.FAIL)
        return T
    def skip(s):
        if s._skip is not None: return s._skip
        L = s.L
        wsT = s.table(('id', 'WHITESPACE'), True)
        cmT = s.table(s.rules['COMMENT'][1], True)
        W = [None] * (L + 1)
        for i in range(L, -1, -1):
            e = wsT[i][0]
            W[i] = If(e > i, s.seli(W, e, i + 1), i) if i < L else IntVal(L)
        # S2[p]: after ws*, repeat (COMMENT ws*)
        S2 = [None] * (L + 1); NC = [None] * (L + 1)
        for p in range(L, -1, -1):
            e = cmT[p][0]
            if p == L:
                S2[p] = IntVal(L); NC[p] = IntVal(0)
            else:
                w = s.seli(W, e, p + 1)
                S2[p] = If(e > p, s.seli(S2, w, p + 1), p)
                NC[p] = If(e > p, 1 + s.seli(NC, w, p + 1), 0)
        T = []
        cid = s.rid['COMMENT']
        for i in range(L + 1):
            end = s.seli(S2, W[i], i)
            nc = s.seli(NC, W[i], i)
            # kids = nc copies of COMMENT (cap 2)
            code = If(nc == 0, 0, If(nc == 1, cid, cid * s.B + cid))
            T.append((end, If(nc > 2, 2, nc), code, nc <= 2))
        s._skip = T
        return T
    def seli(s, arr, idx, lo):
        """select arr[idx] (Int exprs) for idx in lo..L"""
        out = IntVal(-1)
        for i in range(s.L, lo - 1, -1):
            out = If(idx == i, arr[i], out)
        return out
    def table(s, e, atomic):
        key = (repr(e), atomic)
        if key in s.memo: return s.memo[key]
        T = s._table(e, atomic)
        s.memo[key] = T
        return T
    def _table(s, e, atomic):
        L = s.L; k = e[0]
        if k == 'str' or k == 'istr':
            st = e[1]; T = []
            for i in range(L + 1):
                if i + len(st) > L: T.append(s.FAIL); continue
                conds = [s.n >= i + len(st)]
                for j, ch in enumerate(st):
                    if k == 'istr' and ch.isalpha():
                        conds.append(Or(s.c[i + j] == ord(ch.upper()), s.c[i + j] == ord(ch.lower())))
                    else: conds.append(s.c[i + j] == ord(ch))
                T.append((If(And(conds), i + len(st), -1), IntVal(0), IntVal(0), BoolVal(True)))
            return T
        if k == 'id':
            name = e[1]
            if name == 'ASCII_DIGIT': return s.charclass(lambda c: And(c >= 48, c <= 57))
            if name == 'ASCII_ALPHA': return s.charclass(lambda c: Or(And(c >= 65, c <= 90), And(c >= 97, c <= 122)))
            if name == 'ASCII_ALPHANUMERIC': return s.charclass(lambda c: Or(And(c >= 48, c <= 57), And(c >= 65, c <= 90), And(c >= 97, c <= 122)))
            if name == 'ANY': return s.charclass(lambda c: BoolVal(True))
            if name == 'SOI': return [(IntVal(0) if i == 0 else IntVal(-1), IntVal(0), IntVal(0), BoolVal(True)) for i in range(L + 1)]
            if name == 'EOI':
                return [(If(s.n == i, i, -1), IntVal(1), IntVal(s.rid['EOI']), BoolVal(True)) for i in range(L + 1)]
            mod, body = s.rules[name]
            inner_atomic = True if mod in '@$' and mod else (False if mod == '!' else atomic)
            Tb = s.table(body, inner_atomic)
            if mod == '_' or (atomic and mod != '$'):
                # silent (inlined) or inside atomic: no token for this rule
                if atomic: return [(t[0], IntVal(0), IntVal(0), t[3]) for t in Tb]
                return Tb
            # a real node: check match_nodes arms on its children
            arms = s.arms.get(name)
            T = []
            for i in range(L + 1):
                end, kl, kc, ok = Tb[i]
                if arms is None: valid = BoolVal(True)
                else:
                    alts = []
                    for arm in arms:
                        code = 0
                        for r in arm: code = code * s.B + s.rid[r]
                        alts.append(And(kl == len(arm), kc == code))
                    valid = Or(alts) if alts else BoolVal(False)
                kids_ok = ok if mod != '@' else BoolVal(True)
                T.append((end, IntVal(1), IntVal(s.rid[name]), And(kids_ok, valid)))
                s.node_spans.setdefault(name, []).append((i, end))
            return T
        if k == 'seq':
            Ta = s.table(e[1], atomic); Tb = s.table(e[2], atomic)
            T = []
            if atomic:
                for i in range(L + 1): T.append(s.then(Ta[i], Tb))
            else:
                Sk = s.skip()
                for i in range(L + 1):
                    mid = s.then(Ta[i], Sk)
                    T.append(s.then(mid, Tb))
            return T
        if k == 'choice':
            Ta = s.table(e[1], atomic); Tb = s.table(e[2], atomic)
            return [tuple(If(Ta[i][0] >= 0, Ta[i][j], Tb[i][j]) for j in range(4)) for i in range(L + 1)]
        if k == 'opt':
            Ta = s.table(e[1], atomic)
            return [(If(Ta[i][0] >= 0, Ta[i][0], i), If(Ta[i][0] >= 0, Ta[i][1], 0), If(Ta[i][0] >= 0, Ta[i][2], 0), If(Ta[i][0] >= 0, Ta[i][3], True)) for i in range(L + 1)]
        if k == 'not':
            Ta = s.table(e[1], atomic)
            return [(If(Ta[i][0] >= 0, -1, i), IntVal(0), IntVal(0), BoolVal(True)) for i in range(L + 1)]
        if k == 'rep':
            cur = e[1]
            for _ in range(e[2] - 1): cur = ('seq', cur, e[1])
            return s.table(cur, atomic)
        if k in ('star', 'plus'):
            Ta = s.table(e[1], atomic)
            # G[i]: continuation after an `a` ended at i (kids accumulate)
            G = [None] * (L + 1)
            Sk = None if atomic else s.skip()
            for i in range(L, -1, -1):
                here = (IntVal(i), IntVal(0), IntVal(0), BoolVal(True))
                if i == L: G[i] = here; continue
                if atomic: nxt = s.sel_from(Ta, IntVal(i), i)
                else:
                    mid = Sk[i]
                    r = s.sel_from(Ta, mid[0], i)
                    l, c = s.concat(mid, r)
                    nxt = (If(mid[0] >= 0, r[0], -1), l, c, And(mid[3], r[3]))
                # progress required: nxt.end > i
                cont = s.sel_from(G, nxt[0], i + 1)
                l2, c2 = s.concat(nxt, cont)
                good = nxt[0] > i
                G[i] = (If(good, cont[0], i), If(good, l2, 0), If(good, c2, 0), If(good, And(nxt[3], cont[3]), True))
            T = []
            for i in range(L + 1):
                a = Ta[i]
                cont = s.sel(G, a[0])
                l, c = s.concat(a, cont)
                if k == 'star':
                    T.append((If(a[0] >= 0, cont[0], i), If(a[0] >= 0, l, 0), If(a[0] >= 0, c, 0), If(a[0] >= 0, And(a[3], cont[3]), True)))
                else:
                    T.append((If(a[0] >= 0, cont[0], -1), l, c, And(a[3], cont[3])))
            return T
        raise Exception(k)
    def sel_from(s, T, idx, lo):
        out = list(s.FAIL)
        for i in range(s.L, lo - 1, -1):
            cnd = idx == i
            out = [If(cnd, T[i][k], out[k]) for k in range(4)]
        return tuple(out)

def load(repo='/repo'):
    g = open(f'{repo}/crates/cgt-core/src/parser.pest').read()
    rules = P(g).rules()
    src = open(f'{repo}/crates/cgt-core/src/parser.rs').read()
    arms = {}
    for m in re.finditer(r'fn (\w+)\(input: Node\)[^{]*\{(.*?)\n    \}', src, re.S):
        name, body = m.group(1), m.group(2)
        if 'match_nodes!' not in body: continue
        pats = re.findall(r'\n\s*\[([^\]]*)\]\s*=>', body)
        arms[name] = [[re.match(r'\s*(\w+)', x).group(1) for x in p.split('),') if x.strip()] for p in pats]
    return rules, arms

def accept(enc):
    T = enc.table(('id', 'transaction_list'), False)
    end, kl, kc, ok = T[0]
    return And(end >= 0, ok)

def fix_string(enc, text):
    cs = [enc.n == len(text)] + [enc.c[i] == ord(ch) for i, ch in enumerate(text)]
    return cs

if __name__ == '__main__':
    rules, arms = load()
    L = int(sys.argv[1]) if len(sys.argv) > 1 else 40
    t0 = time.time()
    enc = Enc(rules, arms, L, 'a')
    acc = accept(enc)
    print('encode', round(time.time() - t0, 1), 's; arms:', {k: v for k, v in arms.items() if k in ('money', 'cmd_buy', 'cmd_split')})
    # validation on concrete strings
    tests = [("2024-01-01 BUY A 1 @ 2", True), ("2024-01-01 BUY A 1 @ 2 # c", False), ("2024-01-01 BUY A 1 @ 2 GBP # c", False),
             ("2024-01-01 SPLIT A RATIO 2 # c", True), ("2024-01-01 BUY A 1 @ 2 FEES 1 GBP # c", True), ("# hi\n\n2024-01-01 buy a 1 @ 2\r\n", True),
             ("2024-01-01 BUY A 1 @ 2 TAX", False), ("2024-01-01 BUY A 1 @ 2 USD FEES 1 EUR", True), ("2024-01-01 DIVIDEND A TOTAL 5 TAX 1", True), ("2024-01-01  BUY\tA 1 @2", True), ("2024-1-01 BUY A 1 @ 2", False), ("", True)]
    for txt, exp in tests:
        if len(txt) > L: continue
        s = Solver(); s.add(enc.cons); s.add(fix_string(enc, txt)); s.add(acc)
        t1 = time.time(); r = s.check()
        print(repr(txt), 'model:', r, 'expected', 'sat' if exp else 'unsat', round(time.time() - t1, 2), 's', '' if (r == sat) == exp else '  <<< MISMATCH')
