# environment shared by every build and run of the framework (sourced by ./check and the tools)
export VERIF_ROOT=/verif
export CARGO_NET_OFFLINE=true
export Z3_LIBDIR=/opt/veriftools/pyvenv/lib/python3.11/site-packages/z3/lib
export Z3_NO_PKG_CONFIG=1 Z3_LIBRARY_PATH_OVERRIDE=$Z3_LIBDIR Z3_SYS_Z3_VERSION=5.1.0
export LD_LIBRARY_PATH=$Z3_LIBDIR${LD_LIBRARY_PATH:+:$LD_LIBRARY_PATH}
export VERIF_BUILD=/verif/.build
