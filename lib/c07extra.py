"""C07's all-dates part: KANI over TaxPeriod (K1-K3) and SRCX over the two inline re-derivations of the 6-April rule."""
import os
import sys
import time

from . import kani, symx

sys.path.insert(0, os.path.join(symx.ROOT, "srcx"))


def kani_dates(tier, seed):
    t0 = time.time()
    res = [kani.run_harness(h, timeout_s=600 if tier == "quick" else 1800) for h in ("k1_from_date_all_dates", "k2_period_bounds", "k3_chrono_fields", "k4_mcp_explain_year_all_dates")]
    out = {"violations": [], "inconclusive": [], "evidence": {"engine": "KANI 0.68 / CBMC 6.11 (cadical)", "harnesses": res,
           "functions_encoded": ["cgt_core::models::TaxPeriod::{from_date,new,start_date,end_date,start_year,end_year}", "cgt_mcp::server::CgtServer::explain_matching (the `let year = if ..;` statement, source-extracted)", "chrono::NaiveDate::{from_ymd_opt,year,month,day}"],
           "bounds": "all (y, m, d) with 0 <= y <= 9999 (the DSL's 4-digit year) and all u16 start years; no loops to unwind, unwinding assertions on"}}
    k4_failed = [r for r in res if r["status"] == "failed" and r["harness"].startswith("k4")]
    if k4_failed:
        # replay: the compiled statement scanned over every date for the first one that leaves the statute
        rr = symx.run_replay("C07mcp", [{"id": "mcpscan", "base": "2024-01-10", "lines": [], "opts": {"date": "scan"}, "values": {}}], "c07mcpscan")[0]
        bad = [o for o in rr["obs"] if o["v"] == "R"]
        if bad:
            out["violations"].append({"property": "C07", "engine": "KANI", "harnesses_failed": k4_failed, "sub_claim": "MCP explain_matching year derivation", "replayed": bad[0]["why"],
                                      "record": {"id": "mcpscan", "base": "2024-01-10", "lines": [], "opts": {"date": "scan"}, "values": {}}, "harness_prop": "C07mcp", "obligation": "C07.mcp-year-derivation",
                                      "replay": "./check C07 --replay <this file> re-runs the scan of the compiled statement"})
        else:
            out["inconclusive"].append(f"KANI K4 reports failed checks ({k4_failed[0]['detail'][:200]}) but the compiled statement agrees with the statute on every date ({rr['outcome']})")
    failed = [r for r in res if r["status"] == "failed" and not r["harness"].startswith("k4")]
    if failed:
        # replay: native exhaustive scan of every date through the real function
        rr = symx.run_replay("C07dates", [{"id": "scan", "base": "2024-01-10", "lines": [], "opts": {}, "values": {}}], "c07dates")[0]
        ob = rr["obs"][0]
        if ob["v"] == "R":
            out["violations"].append({"property": "C07", "engine": "KANI", "harnesses_failed": failed, "native_scan": ob["why"],
                                      "record": {"id": "scan", "base": "2024-01-10", "lines": [], "opts": {}, "values": {}}, "harness_prop": "C07dates", "obligation": ob["n"],
                                      "replay": "./check C07 --replay <this file> re-runs the native scan of all dates"})
        else:
            out["inconclusive"].append(f"KANI reports failed checks ({failed[0]['detail'][:200]}) but the native scan of all dates finds no disagreement")
    for r in res:
        if r["status"] == "inconclusive":
            out["inconclusive"].append(f"KANI harness {r['harness']} inconclusive: {r['detail'][:200]}")
    out["evidence"]["seconds"] = round(time.time() - t0, 1)
    return out


def srcx_dates(tier, seed):
    import srcx
    t0 = time.time()
    res = srcx.run(symx.REPO)
    out = {"violations": [], "inconclusive": [], "evidence": {"engine": "SRCX: source expression -> SMT-LIB, z3 4.8.12 and cvc5 1.0 must agree", "sub_claims": res,
           "bounds": "all valid Gregorian dates with 0 <= y <= 9999, all filter years 1..9998"}}
    for r in res:
        if r["status"] == "counterexample":
            m = r["model"]
            date = f"{m['y']:04d}-{m['m']:02d}-{m['d']:02d}"
            if r["name"].startswith("S1"):
                rr = symx.run_replay("C07mcp", [{"id": "mcp", "base": date, "lines": [], "opts": {"date": date}, "values": {}}], "c07mcp")[0]
                bad = [o for o in rr["obs"] if o["v"] == "R"]
                if bad:
                    out["violations"].append({"property": "C07", "engine": "SRCX", "sub_claim": r["name"], "date": date, "source": r["detail"], "replayed": bad[0]["why"],
                                              "record": {"id": "mcp", "base": date, "lines": [], "opts": {"date": date}, "values": {}}, "harness_prop": "C07mcp", "obligation": bad[0]["n"]})
                else:
                    out["inconclusive"].append(f"SRCX counterexample {date} for {r['name']} did not reproduce on the compiled statement ({rr['outcome']})")
            else:
                # replay through calculate(.., Some(Y)): a ledger with one disposal on that date
                y = m.get("Y", m["y"])
                if not (1901 <= m["y"] <= 2099):
                    out["inconclusive"].append(f"SRCX counterexample {date} (filter year {y}) lies outside the years the report supports; source: {r['detail']}")
                    continue
                sk = {"id": "srcx", "base": date, "lines": [["B", "A", -1], ["S", "A", 0]], "opts": {"mode": ""}, "values": {}}
                rr = symx.run_replay("C07", [sk], "c07srcx")[0]
                bad = [o for o in rr["obs"] if o["v"] == "R"]
                if bad:
                    out["violations"].append({"property": "C07", "engine": "SRCX", "sub_claim": r["name"], "date": date, "filter_year": y, "source": r["detail"],
                                              "record": sk, "harness_prop": "C07", "obligation": bad[0]["n"], "replayed": bad[0].get("atoms") or bad[0]["why"]})
                else:
                    out["inconclusive"].append(f"SRCX counterexample {date} / year {y} for {r['name']} did not reproduce through calculate()")
        elif r["status"] == "inconclusive":
            out["inconclusive"].append(f"SRCX {r['name']}: solvers did not agree / decide ({r.get('solvers')})")
        # not-covered: recorded in the evidence, does not fail the check (SYMX exercises both sites at boundary dates)
    out["evidence"]["seconds"] = round(time.time() - t0, 1)
    return out
