"""./check setup: build everything from files on disk (offline) and validate the shim against the real rust_decimal."""
import os
import subprocess
import sys

from . import symx


def main():
    os.makedirs(symx.BUILD, exist_ok=True)
    try:
        t = symx.build_all()
    except symx.BuildError as e:
        print(str(e))
        return 2
    print(f"setup: symx + replay harness built in {t:.1f}s")
    rc = 0
    for extra in ("shimcheck", "kani_prebuild", "pegsmt_build"):
        try:
            mod = __import__(f"lib.{extra}", fromlist=["main"])
        except ImportError:
            continue
        r = mod.main()
        print(f"setup: {extra} -> {r}")
        rc = rc or r
    return rc
