"""./check setup: build everything from files on disk (offline) and validate the shim against the real rust_decimal."""
import os
import subprocess
import sys

from . import symx


def main():
    os.makedirs(symx.BUILD, exist_ok=True)
    try:
        t = symx.build_all()
    except symx.BuildError as e:
        print(str(e))
        return 2
    print(f"setup: symx + replay harness built in {t:.1f}s")
    try:
        symx.HOOK = True
        t = symx.build_all()
        symx.HOOK = False
        print(f"setup: hook variants (--cfg cgt_verif) built in {t:.1f}s")
        from . import other
        other.build_dump()
        print("setup: pest-dump built")
    except symx.BuildError as e:
        print(str(e))
        return 2
    rc = 0
    for extra in ("shimcheck", "kani_prebuild", "pegsmt_build"):
        try:
            mod = __import__(f"lib.{extra}", fromlist=["main"])
        except ImportError:
            continue
        r = mod.main()
        print(f"setup: {extra} -> {r}")
        rc = rc or r
    return rc
