"""Checks that are not SYMX runs: C13 (PEGSMT) and the composite C16."""
import glob
import json
import os
import re
import subprocess
import time
from concurrent.futures import ThreadPoolExecutor

from . import findings, symx

EVID = os.environ.get("VERIF_EVID") or ("/verif/evidence" if not symx.SHADOW else os.path.join(symx.BUILD, "evidence"))
PY = "python3-vt"
KEYWORDS = ["BUY", "SELL", "DIVIDEND", "ACCUMULATION", "CAPRETURN", "SPLIT", "UNSPLIT"]


def build_dump():
    e = symx.env()
    e["CARGO_TARGET_DIR"] = os.path.join(symx.BUILD, "pegdump")
    p = subprocess.run(["cargo", "build", "--offline", "--release"], cwd=os.path.join(symx.ROOT, "pegsmt/dump"), env=e, capture_output=True, text=True)
    if p.returncode != 0:
        raise symx.BuildError("pest-dump build failed: " + p.stderr[-500:])
    return os.path.join(symx.BUILD, "pegdump/release/pest-dump")


def corpus_texts(L):
    """every line of the repo's .cgt fixtures and of the parser tests' literals that fits L, plus lexical variants of them"""
    lines = []
    for f in sorted(glob.glob(os.path.join(symx.REPO, "tests/inputs/*.cgt")) + glob.glob(os.path.join(symx.REPO, "tests/**/*.cgt"), recursive=True)):
        try:
            for l in open(f, encoding="utf-8", errors="replace"):
                lines.append(l.rstrip("\n"))
        except OSError:
            pass
    src = ""
    try:
        src = open(os.path.join(symx.REPO, "crates/cgt-core/tests/parser_tests.rs")).read()
    except OSError:
        pass
    for m in re.findall(r'"(\d{4}-\d{2}-\d{2} [^"\\]*)"', src):
        lines.append(m)
    seen, out = set(), []
    for l in lines:
        if l in seen or len(l) > L - 4 or any(ord(c) >= 128 for c in l):
            continue
        seen.add(l)
        out.append(l)
    out = out[:: max(1, len(out) // 60)][:60]
    variants = []
    for l in out:
        variants += [l, l + " # c", l + "\n", l + "\r\n", l.lower(), l.upper(), "# c\n" + l, l.replace(" ", "  ", 1), l + " x", l[:-1], l.replace("@", "", 1)]
    variants += ["", "\n", "#", "# only a comment", "2024-01-01", "2024-01-01 BUY", "2024-1-01 BUY A 1 @ 2", "2024-01-01 BUY A 1 @ 2 TAX", "2024-01-01 BUY A 1 @ 2 USD FEES 1 EUR",
                 "2024-01-01 BUY A 1 @ 2 XYZ", "2024-01-01 BUY A 1 @ 2 usd", "2024-01-01 BUY A 1 @ 2 uSd fees 1", "2024-01-01 DIVIDEND A TOTAL 5 tax 1", "2024-01-01 DIVIDEND A TOTAL 5 Tax 1 eur",
                 "2024-01-01 DIVIDEND A TOTAL 5 TAX", "2024-01-01 SELL A 1 @ 2 fees", "2024-01-01 sell a 1 @ 2 Fee 1", "2024-01-01 SPLIT A ratio 2", "2024-01-01 BUY A 1 @ 2 ALL", "2024-01-01 BUY A 1 @ 2 buy"]
    seen, res = set(), []
    for v in variants:
        if v not in seen and len(v) <= L:
            seen.add(v)
            res.append(v)
    return res


def c13(tier, seed):
    t0 = time.time()
    pid = "C13"
    os.makedirs(os.path.join(EVID, "replays"), exist_ok=True)
    try:
        symx.build_all()
        dump = build_dump()
    except symx.BuildError as e:
        print(f"INCONCLUSIVE property={pid} build failed")
        symx.log(str(e))
        return 2
    L = 30 if tier == "quick" else 40
    kws = ["BUY", "SELL", "DIVIDEND", "SPLIT", "UNSPLIT"] if tier == "quick" else KEYWORDS
    tmo = 400 if tier == "quick" else 1800
    wd = symx.workdir("c13")
    inconclusive, lines, vio_paths = [], [], []

    # the trade commands have the most optional clauses: their obligations are split over three processes
    jobs = []
    for kw in kws:
        n = 3 if kw in ("BUY", "SELL") else 1
        jobs += [(kw, f"{i}/{n}", L, "") for i in range(n)]
    if tier == "quick":
        # the TAX clause of a DIVIDEND line needs 35 bytes: two obligations at a longer bound
        jobs.append(("DIVIDEND", "0/1", 36, "letter-case,trailing-comment,trailing-comment-touching"))

    def run_kw(job):
        kw, part, Lj, only = job
        out = os.path.join(wd, f"{kw}-{Lj}-{part.replace('/', 'of')}.json")
        p = subprocess.run([PY, os.path.join(symx.ROOT, "pegsmt/run.py"), "worker", symx.REPO, dump, str(Lj), kw, out, str(tmo), part, only], capture_output=True, text=True, timeout=tmo * 12)
        if os.path.exists(out):
            return json.load(open(out))
        return {"keyword": kw, "obligations": [], "planned": 0, "error": p.stderr[-400:]}

    def run_corpus():
        texts = corpus_texts(L)
        inp, out = os.path.join(wd, "corpus.json"), os.path.join(wd, "corpus-out.json")
        json.dump(texts, open(inp, "w"))
        p = subprocess.run([PY, os.path.join(symx.ROOT, "pegsmt/run.py"), "corpus", symx.REPO, dump, str(L), inp, out], capture_output=True, text=True, timeout=3600)
        enc = json.load(open(out)) if os.path.exists(out) else None
        real = symx.run_replay("C13parse", [{"id": f"c{i}", "base": "2024-01-10", "lines": [], "opts": {"texts": [t]}, "values": {}} for i, t in enumerate(texts)], "c13corpus")
        return texts, enc, real, p.stderr[-300:]

    with ThreadPoolExecutor(len(jobs) + 1) as ex:
        fc = ex.submit(run_corpus)
        results = list(ex.map(run_kw, jobs))
        texts, enc, real, cerr = fc.result()

    # --- validation of the encoding on the corpus
    agree = disagree = 0
    first_dis = None
    if enc is None:
        inconclusive.append("corpus validation did not run: " + cerr)
    else:
        for t, e, r in zip(texts, enc, real):
            if e is None:
                continue
            rr = r["extra"]["results"][0]
            if e["accepted"] == rr["accepted"] and (not e["accepted"] or e["transactions"] == rr["transactions"]):
                agree += 1
            else:
                disagree += 1
                first_dis = first_dis or (t, e, rr)
        if disagree:
            inconclusive.append(f"the encoding disagrees with the real parser on {disagree} corpus strings, e.g. {first_dis[0]!r}: encoding {first_dis[1]} vs parser {first_dis[2]}")

    # --- solver-chosen accepted lines and their lexical variants through the real parser, compared field by field
    ex_pairs = []
    for r in results:
        for a in r.get("examples") or []:
            gaps = [i for i, ch in enumerate(a) if ch in " \t" and i > 10]
            vs = [a + " #x", a + " # 2024-01-02 SELL Z 1 @ 1", a + "\n", a + "\r\n", a + "\r", "# c\n" + a, "\n" + a, "\r\n\t \n" + a + "\n\n", a + "\t", a + " "]
            for g in gaps[:6]:
                vs.append(a[:g] + " \t " + a[g:])
            ex_pairs += [(a, v, "same") for v in vs]
            ex_pairs += [(a, a.upper(), "same"), (a, a.lower(), "same"), (a, a.swapcase(), "same")]
    ex_bad = []
    if ex_pairs:
        recs = [{"id": f"e{i}", "base": "2024-01-10", "lines": [], "opts": {"texts": [a, v], "mode": m}, "values": {}} for i, (a, v, m) in enumerate(ex_pairs)]
        for (a, v, m), rr in zip(ex_pairs, symx.run_replay("C13parse", recs, "c13ex")):
            if any(o["v"] == "R" for o in rr["obs"]):
                ex_bad.append((a, v, rr))
    for a, v, rr in ex_bad[:5]:
        path = os.path.join(EVID, "replays", f"{pid}-{len(vio_paths)}.json")
        json.dump({"property": pid, "harness_prop": "C13parse", "obligation": "C13.variant-parses-the-same", "record": {"id": "ex", "base": "2024-01-10", "lines": [], "opts": {"texts": [a, v], "mode": "same"}, "values": {}}, "parser": rr["extra"]}, open(path, "w"), indent=1)
        vio_paths.append(path)
        lines.append(f"VIOLATION property={pid} replay={path}")

    # --- rejection names the offending line / nothing is skipped: solver-chosen accepted lines assembled into three-line texts
    # with one line corrupted (a corruption is used only if the real parser rejects the corrupted line on its own), joined by
    # LF, CRLF and CR, with and without leading blank/comment lines; run through the REAL parser (concrete, not a solver claim)
    err_recs, err_meta = [], []
    exs = []
    for r in results:
        for a in (r.get("examples") or [])[:4]:
            if a not in exs:
                exs.append(a)
    cand = []
    for a in exs:
        toks = a.split(" ")
        cs = [a + " @", a.replace("2024-01-01", "2024-02-31", 1), a.replace("2024-01-01", "2024-13-01", 1), a + " XQZ", a + " 7"]
        if len(toks) > 3:
            cs.append(" ".join(toks[:3] + ["?"] + toks[3:]))
            cs.append(" ".join(toks[:-1]))
            cs.append(" ".join(toks[:2] + toks[3:]))
        cand += [(a, c) for c in cs if c != a]
    alone = symx.run_replay("C13parse", [{"id": f"a{i}", "base": "2024-01-10", "lines": [], "opts": {"texts": [c]}, "values": {}} for i, (a, c) in enumerate(cand)], "c13alone") if cand else []
    bad_lines = [(a, c) for (a, c), rr in zip(cand, alone) if not rr["extra"]["results"][0]["accepted"]]
    for a, c in bad_lines:
        for sep, sepname in (("\n", "LF"), ("\r\n", "CRLF"), ("\r", "CR")):
            for pre, k in (([], 0), (["", "# note"], 2)):
                for pos in (0, 1, 2):
                    ls = [a, a, a]
                    ls[pos] = c
                    text = sep.join(pre + ls) + (sep if pos != 2 else "")
                    err_recs.append({"id": f"l{len(err_recs)}", "base": "2024-01-10", "lines": [], "opts": {"texts": [text], "mode": "error-line", "expect_line": k + pos + 1}, "values": {}})
                    err_meta.append((sepname, text))
    for a in exs:
        for sep, sepname in (("\n", "LF"), ("\r\n", "CRLF"), ("\r", "CR")):
            text = sep.join(["# head", a, "", a + " # t", "\t", a.lower()])
            err_recs.append({"id": f"l{len(err_recs)}", "base": "2024-01-10", "lines": [], "opts": {"texts": [text], "mode": "count", "expect_n": 3}, "values": {}})
            err_meta.append((sepname, text))
    err_bad = []
    if err_recs:
        for rec, (sepname, text), rr in zip(err_recs, err_meta, symx.run_replay("C13parse", err_recs, "c13err")):
            for o in rr["obs"]:
                if o["v"] == "R":
                    err_bad.append((rec, sepname, o, rr))
    known = findings.load()
    known_hit = {}
    shown = 0
    for rec, sepname, o, rr in err_bad:
        f = next((k for k in known.get("known", []) if k["property"] == pid and k.get("role") == "cr-only-line-numbering" and sepname == "CR" and o["n"] == "C13.error-names-the-offending-line"), None)
        if f:
            known_hit[f["id"]] = f
            continue
        if shown < 5:
            shown += 1
            path = os.path.join(EVID, "replays", f"{pid}-{len(vio_paths)}.json")
            json.dump({"property": pid, "harness_prop": "C13parse", "obligation": o["n"], "line_ends": sepname, "record": rec, "parser": rr["extra"], "detail": o["why"]}, open(path, "w"), indent=1)
            vio_paths.append(path)
            lines.append(f"VIOLATION property={pid} replay={path}")
    for f in known_hit.values():
        lines.append(f"KNOWN-FINDING: property={pid} {f['id']} {f['what']}")

    # --- obligations
    n_ob = n_dis = 0
    samples = []
    replayed = reproduced = 0
    for r in results:
        if r.get("unsupported"):
            inconclusive.append(f"grammar not encodable: {r['unsupported']}")
            continue
        if r.get("error") and not r["obligations"]:
            inconclusive.append(f"worker {r['keyword']} failed: {r['error'][-200:]}")
            continue
        if r.get("reachable", {}).get("verdict") != "sat":
            inconclusive.append(f"no accepted line with keyword {r['keyword']} within L={L}: the obligations for it are vacuous ({r.get('reachable')})")
        elif len(samples) < 4 and r.get("part", "0/1").startswith("0/") and r.get("L") == L:
            samples.append({"keyword": r["keyword"], "accepted_example": r["reachable"]["example"], "obligations": [[o["name"], o["verdict"], o["s"]] for o in r["obligations"]]})
        for o in r["obligations"]:
            n_ob += 1
            if o["verdict"] == "unsat":
                n_dis += 1
            elif o["verdict"] == "sat":
                mode = "same-acceptance" if o["name"] == "letter-case" else ("second-rejected" if o["name"] == "stray-token-rejected" else "same")
                rec = {"id": "cx", "base": "2024-01-10", "lines": [], "opts": {"texts": [o["a"], o["b"]], "mode": mode}, "values": {}}
                rr = symx.run_replay("C13parse", [rec], "c13cx")[0]
                replayed += 1
                bad = [x for x in rr["obs"] if x["v"] == "R"]
                if bad:
                    reproduced += 1
                    path = os.path.join(EVID, "replays", f"{pid}-{len(vio_paths)}.json")
                    json.dump({"property": pid, "harness_prop": "C13parse", "obligation": "C13.variant-parses-the-same", "pegsmt_obligation": o["name"], "keyword": r["keyword"], "record": rec, "parser": rr["extra"]}, open(path, "w"), indent=1)
                    vio_paths.append(path)
                    lines.append(f"VIOLATION property={pid} replay={path}")
                else:
                    inconclusive.append(f"solver counterexample for {o['name']}/{r['keyword']} does not reproduce on the real parser: {o['a']!r} vs {o['b']!r} -> {rr['extra']}")
            else:
                inconclusive.append(f"obligation {o['name']}/{r['keyword']} undecided ({o['verdict']} after {o['s']}s)")
        done = {o["name"] for o in r["obligations"]}
        if len(done) < r.get("planned", 8):
            inconclusive.append(f"worker {r['keyword']} {r.get('part')} finished only {len(done)} of {r.get('planned')} obligations")
    wall = time.time() - t0
    ev = {
        "property_id": pid, "tier": tier, "seed": seed, "level": "model_checking",
        "coverage": {
            "states": max(1, agree + disagree), "transitions": max(1, n_ob), "traces_validated_against_impl": agree + reproduced + len(ex_pairs) - len(ex_bad),
            "samples": samples or [{"note": "no worker finished"}],
            "exhaustive": not inconclusive,
            "obligations": n_ob, "discharged": n_dis, "corpus_strings_agreeing": agree, "corpus_strings_disagreeing": disagree,
            "counterexamples_replayed": replayed, "counterexamples_reproduced": reproduced,
            "solver_chosen_lines_with_variants_through_real_parser": len(ex_pairs), "of_which_parsed_differently": len(ex_bad),
            "corrupted_three_line_texts_through_real_parser": len(err_recs), "of_which_not_rejected_on_the_corrupted_line_or_miscounted": len(err_bad),
            "functions_encoded": ["crates/cgt-core/src/parser.pest (every rule, read through pest_meta's own parser)", "match_nodes! arms of crates/cgt-core/src/parser.rs (pest_consume node matching)"],
            "bounds": f"(DIVIDEND: letter case and trailing comment also at length <= 36 in the quick tier) all byte strings (bytes < 0x80) of length <= {L} that start with the date 2024-01-01, one of the keywords {kws} in any letter case and a blank, and contain no line break or '#'; related to a second string by one lexical edit: appended ' #x' comment (also '#x' touching the last token), one more space/tab at a symbolic position, upper-casing, appended LF / CR / CRLF, a preceding full-line comment, a preceding blank line; and an appended stray ' @' must make it rejected",
            "outside_claim": ["lines longer than the bound (ACCUMULATION/CAPRETURN need the thorough tier)", "dates other than the fixed literal", "bytes >= 0x80", "rejection of corrupted text with the error on the offending line is checked on concrete three-line texts built from solver-chosen lines (samples through the real parser, not a solver claim)", "semantic actions other than node matching (decimal/currency/date conversion)"],
            "solver": "z3 5.1 (QF_BV), one process per keyword", "solver_seconds": round(sum(o["s"] for r in results for o in r.get("obligations", [])), 1),
            "encode_seconds": [r.get("encode_s") for r in results],
            "explanation": "; ".join(inconclusive) if inconclusive else "all obligations discharged (unsat) and the encoding agrees with the real parser on the whole corpus",
        },
        "assumptions": ["acceptance and the sequence of child nodes of transaction_list stand for 'what is parsed': two accepted strings with the same single command differ only in token contents, which the edit does not touch", "the real parser is pest_derive's expansion of the same grammar AST (pest_meta) that is encoded"],
        "wall_s": round(wall, 1), "violations": len(vio_paths),
    }
    os.makedirs(EVID, exist_ok=True)
    json.dump(ev, open(os.path.join(EVID, f"{pid}.json"), "w"), indent=1)
    for l in lines:
        print(l)
    print(f"[{pid}] tier={tier} L={L} keywords={len(kws)} obligations={n_ob} discharged={n_dis} corpus agree={agree} disagree={disagree} replayed={replayed} reproduced={reproduced} wall={wall:.1f}s")
    if vio_paths:
        return 1
    if inconclusive:
        for r in inconclusive:
            print(f"INCONCLUSIVE property={pid} {r}")
        return 2
    return 0


CHECKS = {"C13": c13}
