"""./check <property> --replay <file>: re-run one recorded counterexample on the build with the REAL rust_decimal."""
import json

from . import symx


def main(pid, path):
    with open(path) as f:
        r = json.load(f)
    symx.build_all()
    hp = r.get("harness_prop", pid)
    res = symx.run_replay(hp, [r["record"]], pid + "-manual")[0]
    ob = next((o for o in res["obs"] if o["n"] == r["obligation"]), None)
    print(json.dumps({"outcome": res["outcome"], "msg": res["msg"], "obligation": ob, "ledger": res.get("extra", {}).get("ledger")}, indent=1))
    if (ob and ob["v"] == "R") or res["outcome"] == "panic":
        print(f"VIOLATION property={pid} replay={path}")
        return 1
    print("not reproduced on the current tree")
    return 0
