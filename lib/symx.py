"""Driver side of SYMX: build the two harness binaries from /repo's current tree, fan skeletons out over
16 processes, collect leaf records, replay counterexamples and path witnesses on the real-rust_decimal build."""
import fcntl
import json
import os
import re
import shutil
import subprocess
import sys
import time
from concurrent.futures import ThreadPoolExecutor
from fractions import Fraction

ROOT = "/verif"
# VERIF_REPO: which checkout of velikodniy/cgt-tool to verify. The registered commands always use /repo itself;
# a scratch worktree can be named here to try a seeded change without touching /repo (shadow copies of the
# harness manifests are generated with the paths rewritten, with their own target directories).
REPO = os.path.realpath(os.environ.get("VERIF_REPO", "/repo"))
SHADOW = REPO != "/repo"
BUILD = os.path.join(ROOT, ".build") if not SHADOW else os.path.join(ROOT, ".build", "shadow", REPO.strip("/").replace("/", "_"))
Z3LIB = "/opt/veriftools/pyvenv/lib/python3.11/site-packages/z3/lib"
NPROC = int(os.environ.get("VERIF_JOBS", "16"))


def env():
    e = dict(os.environ)
    e.update(
        CARGO_NET_OFFLINE="true",
        Z3_NO_PKG_CONFIG="1",
        Z3_LIBRARY_PATH_OVERRIDE=Z3LIB,
        Z3_SYS_Z3_VERSION="5.1.0",
        LD_LIBRARY_PATH=Z3LIB + (":" + e["LD_LIBRARY_PATH"] if e.get("LD_LIBRARY_PATH") else ""),
    )
    return e


class BuildError(Exception):
    pass


HOOK = False  # set by the runner for checks that build /repo with --cfg cgt_verif (C16)


def suffix():
    return "-hook" if HOOK else ""


def cargo_build(crate_dir, target, features=None):
    """incremental cargo build of a harness crate against /repo's working tree (path dependencies)"""
    os.makedirs(BUILD, exist_ok=True)
    lock = os.path.join(crate_dir, "Cargo.lock")
    if not os.path.exists(lock):
        shutil.copy(os.path.join(REPO, "Cargo.lock"), lock)
    cmd = ["cargo", "build", "--offline", "--release"]
    if features:
        cmd += ["--features", ",".join(features)]
    e = env()
    e["CARGO_TARGET_DIR"] = os.path.join(BUILD, target)
    if HOOK:
        e["RUSTFLAGS"] = "--cfg cgt_verif"
    with open(os.path.join(BUILD, f"{target}.lock"), "w") as lf:
        fcntl.flock(lf, fcntl.LOCK_EX)
        p = subprocess.run(cmd, cwd=crate_dir, env=e, capture_output=True, text=True)
    if p.returncode != 0:
        tail = "\n".join(p.stderr.splitlines()[-40:])
        raise BuildError(f"cargo build failed in {crate_dir}:\n{tail}")


def crate_dirs():
    if not SHADOW:
        return os.path.join(ROOT, "symx/harness"), os.path.join(ROOT, "symx/replay")
    dst = os.path.join(BUILD, "symx-src")
    shutil.rmtree(dst, ignore_errors=True)
    shutil.copytree(os.path.join(ROOT, "symx"), dst, ignore=shutil.ignore_patterns("target", "Cargo.lock"))
    for sub in ("harness", "replay"):
        for fn in ("Cargo.toml", "build.rs"):
            p = os.path.join(dst, sub, fn)
            if os.path.exists(p):
                txt = open(p).read().replace("/repo/", REPO + "/")
                open(p, "w").write(txt)
        shutil.copy(os.path.join(REPO, "Cargo.lock"), os.path.join(dst, sub, "Cargo.lock"))
    return os.path.join(dst, "harness"), os.path.join(dst, "replay")


MCP_OK = False  # the MCP tool handlers (crate cgt-mcp, private) are compiled into the harness from their source text


def build_all():
    global MCP_OK
    t0 = time.time()
    os.makedirs(BUILD, exist_ok=True)
    hd, rd = crate_dirs()

    def both(features):
        with ThreadPoolExecutor(2) as ex:
            a = ex.submit(cargo_build, hd, "symx" + suffix(), features)
            b = ex.submit(cargo_build, rd, "replay" + suffix(), features)
            a.result()
            b.result()

    if HOOK:  # the hook variants (C16) do not need the MCP handlers
        MCP_OK = False
        both(None)
        return time.time() - t0
    try:
        both(["mcp"])
        MCP_OK = True
    except BuildError as e:
        # e.g. the private items the appended entry module names were renamed: the MCP sub-claims are then not covered,
        # everything else is unaffected
        MCP_OK = False
        log("NOTE: crates/cgt-mcp/src could not be compiled into the harness; MCP sub-claims are NOT covered in this run:\n" + str(e)[-600:])
        both(None)
    return time.time() - t0


def symx_bin():
    return os.path.join(BUILD, f"symx{suffix()}/release/symx")


def replay_bin():
    return os.path.join(BUILD, f"replay{suffix()}/release/replay")


def workdir(tag):
    d = os.path.join(BUILD, "work", f"{tag}-{os.getpid()}")
    shutil.rmtree(d, ignore_errors=True)
    os.makedirs(d)
    return d


def run_symx(prop, skeletons, tag, chunk=8, timeout_s=1500, extra_env=None):
    """run the symbolic harness over all skeletons; returns (leaf records, summary records, failures)"""
    wd = workdir(tag)
    chunks = [skeletons[i : i + chunk] for i in range(0, len(skeletons), chunk)]
    e = env()
    if extra_env:
        e.update(extra_env)

    def one(i):
        inp = os.path.join(wd, f"in{i}.jsonl")
        out = os.path.join(wd, f"out{i}.jsonl")
        with open(inp, "w") as f:
            for s in chunks[i]:
                f.write(json.dumps(s) + "\n")
        # own session: on a timeout the whole tree of forked path processes is ended, not only the top one
        p = subprocess.Popen([symx_bin(), "run", prop, inp, out], env=e, stdout=subprocess.DEVNULL, stderr=subprocess.PIPE, text=True, start_new_session=True)
        try:
            _, err = p.communicate(timeout=timeout_s)
        except subprocess.TimeoutExpired:
            try:
                os.killpg(p.pid, 9)
            except ProcessLookupError:
                pass
            p.wait()
            return i, -9, f"chunk {i} exceeded {timeout_s}s and was ended ({', '.join(str(s.get('id')) for s in chunks[i])})"
        return i, p.returncode, (err or "")[-2000:]

    fails = []
    with ThreadPoolExecutor(NPROC) as ex:
        for i, rc, err in ex.map(one, range(len(chunks))):
            if rc != 0:
                fails.append((i, rc, err))
    leaves, sums = [], []
    for i in range(len(chunks)):
        out = os.path.join(wd, f"out{i}.jsonl")
        if not os.path.exists(out):
            continue
        with open(out) as f:
            for line in f:
                line = line.strip()
                if not line:
                    continue
                try:
                    r = json.loads(line)
                except json.JSONDecodeError:
                    fails.append((i, -1, "garbled record"))
                    continue
                (sums if r["t"] == "sum" else leaves).append(r)
    shutil.rmtree(wd, ignore_errors=True)
    return leaves, sums, fails


def run_replay(prop, records, tag):
    """concrete re-evaluation on the real-rust_decimal build; records = skeletons carrying 'values'"""
    if not records:
        return []
    wd = workdir(tag + "-replay")
    inp = os.path.join(wd, "in.jsonl")
    out = os.path.join(wd, "out.jsonl")
    with open(inp, "w") as f:
        for s in records:
            f.write(json.dumps(s) + "\n")
    p = subprocess.run([replay_bin(), "run", prop, inp, out], env=env(), capture_output=True, text=True, timeout=1800)
    res = []
    if os.path.exists(out):
        with open(out) as f:
            res = [json.loads(l) for l in f if l.strip()]
    if p.returncode != 0 or len(res) != len(records):
        raise RuntimeError(f"replay binary failed rc={p.returncode} ({len(res)}/{len(records)} records): {p.stderr[-1500:]}")
    shutil.rmtree(wd, ignore_errors=True)
    return res


NUM = re.compile(r"^-?\d+(\.\d+)?$")


def z3_value(s):
    """parse a z3 numeral such as '2.0', '(/ 1.0 3.0)', '(- (/ 1.0 3.0))' into a Fraction (None if not rational)"""
    s = s.strip()
    toks = s.replace("(", " ( ").replace(")", " ) ").split()
    pos = 0

    def parse():
        nonlocal pos
        t = toks[pos]
        pos += 1
        if t == "(":
            op = toks[pos]
            pos += 1
            args = []
            while toks[pos] != ")":
                args.append(parse())
            pos += 1
            if any(a is None for a in args):
                return None
            if op == "-" and len(args) == 1:
                return -args[0]
            if op == "-":
                return args[0] - sum(args[1:])
            if op == "/":
                return args[0] / args[1]
            if op == "+":
                return sum(args)
            if op == "*":
                r = Fraction(1)
                for a in args:
                    r *= a
                return r
            return None
        if NUM.match(t):
            return Fraction(t)
        if re.match(r"^-?\d+/\d+$", t):
            return Fraction(t)
        return None

    try:
        return parse()
    except (IndexError, ZeroDivisionError, ValueError):
        return None


def decimal_string(fr, max_dp=24):
    """exact decimal string if the fraction terminates within max_dp places, else 'n/d'"""
    d = fr.denominator
    k = 0
    while d % 10 == 0:
        d //= 10
        k += 1
    twos = fives = 0
    while d % 2 == 0:
        d //= 2
        twos += 1
    while d % 5 == 0:
        d //= 5
        fives += 1
    if d != 1 or k + max(twos, fives) > max_dp:
        return f"{fr.numerator}/{fr.denominator}"
    dp = k + max(twos, fives)
    n = fr.numerator * 10**dp // fr.denominator
    sign = "-" if n < 0 else ""
    n = abs(n)
    s = str(n).rjust(dp + 1, "0")
    return sign + (s[:-dp] + "." + s[-dp:] if dp else s)


def model_to_values(model):
    """z3 model (name -> numeral text) to replayable decimal strings; None if some value is not rational"""
    vals = {}
    for k, v in model.items():
        fr = z3_value(v)
        if fr is None:
            return None
        vals[k] = decimal_string(fr)
    return vals


def log(*a):
    print(*a, file=sys.stderr, flush=True)
