"""C18 free-text sub-claim by PEGSMT: 'valid DSL whatever the free-text fields contain' for field contents up to K bytes."""
import json
import os
import subprocess
import time

from . import other, symx

PY = "python3-vt"


def freetext(tier, seed):
    t0 = time.time()
    K = 8 if tier == "quick" else 12
    out = {"violations": [], "inconclusive": [], "evidence": {"engine": "PEGSMT free-text query (z3, QF_BV) on the grammar, with the byte-transfer map measured on the real converter"}}
    ev = out["evidence"]
    try:
        dump = other.build_dump()
    except symx.BuildError as e:
        out["inconclusive"].append("pest-dump build failed: " + str(e)[-200:])
        return out
    r = symx.run_replay("C18bytes", [{"id": "b", "base": "2024-01-10", "lines": [], "opts": {"seed": seed}, "values": {}}], "c18bytes")[0]
    maps = r["extra"]["maps"]
    ev["template"] = r["extra"]["template"]
    ev["bytewise_probes_ok"] = r["extra"]["multi_ok"]
    if r["extra"]["multi_bad"]:
        ev["not_covered"] = "the converter does not treat the field byte-wise: " + r["extra"]["multi_bad"][0]
        return out
    wd = symx.workdir("c18ft")
    done = {}
    results = []
    for field, m in maps.items():
        bmap = []
        ok = True
        for b, img in enumerate(m):
            if b in (120, 121):  # the probe's own delimiters
                bmap.append(b)
            elif isinstance(img, list) and len(img) == 1:
                bmap.append(img[0])
            else:
                ok = False
                break
        if not ok:
            results.append({"field": field, "status": "not-covered", "why": f"byte {b} of the field does not map to a single byte ({img})"})
            continue
        key = json.dumps(bmap)
        if key in done:
            results.append(dict(done[key], field=field, same_map_as=done[key]["field"]))
            continue
        mp, op = os.path.join(wd, f"{field}-map.json"), os.path.join(wd, f"{field}.json")
        json.dump(bmap, open(mp, "w"))
        p = subprocess.run([PY, os.path.join(symx.ROOT, "pegsmt/run.py"), "freetext", symx.REPO, dump, str(K), mp, op, "600"], capture_output=True, text=True, timeout=3600)
        if not os.path.exists(op):
            out["inconclusive"].append(f"free-text worker for {field} failed: {p.stderr[-200:]}")
            continue
        res = json.load(open(op))
        res["field"] = field
        res["bytes_not_identity"] = {str(b): v for b, v in enumerate(bmap) if v != b}
        done[key] = res
        results.append(res)
        if res.get("unsupported"):
            out["inconclusive"].append("grammar not encodable: " + res["unsupported"])
        elif res.get("reference_accepted") != "sat":
            out["inconclusive"].append("free-text query is vacuous: the reference transaction line is not accepted by the encoding")
        elif res["verdict"] == "sat":
            content = "".join(chr(c) for c in res["content"])
            rows = [["Buy", "A", 0, "dollar", None, None, None, False], ["Mystery Action", "A" if field == "Description" else content, 0, "dollar", None, content if field == "Description" else "d", None, False], ["Sell", "A", 1, "dollar", None, None, None, False]]
            rec = {"id": "ft", "base": "2024-01-10", "lines": [], "opts": {"rows": rows, "wit": 0}, "values": {"q0": "10", "p0": "1", "f0": "0", "a0": "0", "q1": "1", "p1": "1", "f1": "0", "a1": "0", "q2": "5", "p2": "2", "f2": "0", "a2": "0"}}
            rr = symx.run_replay("C18", [rec], "c18ftcx")[0]
            bad = [o for o in rr["obs"] if o["v"] == "R"]
            if bad:
                out["violations"].append({"property": "C18", "harness_prop": "C18", "obligation": bad[0]["n"], "engine": "PEGSMT free text", "field": field, "content_bytes": res["content"], "record": rec, "why": bad[0]["why"]})
            else:
                out["inconclusive"].append(f"free-text counterexample {res['content']} for {field} does not reproduce through convert + parse_file")
        elif res["verdict"] != "unsat":
            out["inconclusive"].append(f"free-text query for {field} undecided ({res['verdict']} after {res['s']}s)")
    ev["queries"] = results
    ev["bounds"] = f"every content of at most {K} bytes (< 0x80) of the Description and Symbol fields of an unknown-action row, inside the shortened template '# (' + content + ')' followed by a line break and a valid transaction line; assumes the field is transferred byte-wise (checked on 50 seeded random strings) and that what precedes the content on the comment line is irrelevant to the grammar (a COMMENT is '#' followed by anything up to a line break)"
    ev["seconds"] = round(time.time() - t0, 1)
    return out
