"""Known findings: genuine defects of velikodniy/cgt-tool that are recorded rather than repaired.
The file /verif/known_findings.json is committed and never written at run time.  Entries are keyed by a
ROLE (a predicate over the skeleton and the failing obligation, implemented below), not by one literal
input, and each is written as narrowly as the defect allows; a violation outside every listed role is
reported as a VIOLATION."""
import json
import os

PATH = "/verif/known_findings.json"


def load():
    if not os.path.exists(PATH):
        return {"known": [], "fixed": []}
    with open(PATH) as f:
        return json.load(f)


def _lines(sk, key="lines"):
    return sk.get(key) or []


def role_nonadjacent_same_day_lots(sk, leaf, ob):
    """>= 2 same-day same-kind trade lines of one security that some explored line order separates by another line"""
    seen = {}
    for l in _lines(sk):
        if l[0] in ("B", "S"):
            seen[(l[0], l[1], l[2])] = seen.get((l[0], l[1], l[2]), 0) + 1
    return any(v >= 2 for v in seen.values()) and len(_lines(sk)) >= 3


def role_split_and_trade_same_day(sk, leaf, ob):
    """a SPLIT/UNSPLIT dated on the same day as a BUY or SELL of the same security"""
    ev = {(l[1], l[2]) for l in _lines(sk) if l[0] in ("X", "U")}
    tr = {(l[1], l[2]) for l in _lines(sk) if l[0] in ("B", "S")}
    return bool(ev & tr)


def role_overflow(sk, leaf, ob):
    """the panic message is rust_decimal's overflow panic (Addition/Subtraction/Multiplication/Division overflowed)"""
    txt = ((leaf.get("msg") or "") + " " + (ob.get("why") or "")).lower()
    return "overflowed" in txt


def role_unmerged_marker(sk, leaf, ob):
    """the harness marked the explored line order as one in which two same-day same-kind trade lines of one security are
    separated by another line after the date sort (computed from the actual order, see relational.rs `unmerged`)"""
    return "~unmerged" in ob["n"]


def _unmerged(lines):
    """python twin of relational.rs::unmerged: after a stable sort by day, two same-day same-kind trade lines of one
    security separated by another line"""
    v = sorted(lines, key=lambda l: l[2])
    for i, a in enumerate(v):
        if a[0] not in ("B", "S"):
            continue
        gap = False
        for b in v[i + 1:]:
            if b[2] != a[2]:
                break
            if b[0] == a[0] and b[1] == a[1]:
                if gap:
                    return True
            else:
                gap = True
    return False


def role_residue_unmerged(sk, leaf, ob):
    """the REAL build refuses a covered ledger with an unmatched remainder below 1e-15 shares, on a line order that leaves
    same-day lots unmerged (proportional consumption across several lots of one day rounds at 28 digits)"""
    import re
    msg = leaf.get("msg") or ""
    return bool(re.search(r"unmatched 0\.0{15,}\d", msg)) and _unmerged(_lines(sk))


ROLES = {
    "residue-unmerged-same-day-lots": role_residue_unmerged,
    "unmerged-same-day-lines": role_unmerged_marker,
    "nonadjacent-same-day-lots": role_nonadjacent_same_day_lots,
    "split-and-trade-same-day": role_split_and_trade_same_day,
    "decimal-overflow": role_overflow,
}


def match(known, pid, sk, leaf, ob):
    for f in known.get("known", []):
        if f["property"] != pid:
            continue
        obs = f.get("obligations")
        if obs and ob["n"] not in obs:
            continue
        fn = ROLES.get(f["role"])
        if fn and fn(sk, leaf, ob):
            return f
    return None
