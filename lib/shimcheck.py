"""setup: differential validation of the symbolic rust_decimal shim against the real crate (same operations, both builds)."""
import re
from fractions import Fraction

from . import symx

NUM = re.compile(r"-?\d+(?:\.\d+)?")


def close(a, b):
    fa, fb = Fraction(a), Fraction(b)
    return abs(fa - fb) <= Fraction(1, 10**20) * max(1, abs(fa), abs(fb))


def main():
    sk = {"id": "shim", "base": "2024-01-10", "lines": [], "opts": {}, "values": {}}
    leaves, sums, fails = symx.run_symx("SHIM", [sk], "shim")
    real = symx.run_replay("SHIM", [sk], "shim")
    if fails or len(leaves) != 1 or len(real) != 1:
        print(f"shimcheck: harness did not run ({fails})")
        return 2
    a, b = leaves[0]["extra"]["lines"], real[0]["extra"]["lines"]
    bad = []
    if len(a) != len(b):
        bad.append(f"{len(a)} vs {len(b)} result lines")
    for x, y in zip(a, b):
        if x == y:
            continue
        # same text up to the decimal rendering: compare every number (the shim prints constants without trailing zeros,
        # quotients exactly; the real crate keeps its scale and rounds quotients at 28 digits)
        if NUM.sub("#", x) != NUM.sub("#", y):
            # "-0.00" (real) vs "0" (exact rational) and the like: compare after dropping the sign of zero
            if NUM.sub("#", x.replace("-", "")) != NUM.sub("#", y.replace("-", "")):
                bad.append(f"{x!r} vs {y!r}")
                continue
        nx, ny = NUM.findall(x.split(" = ", 1)[-1]), NUM.findall(y.split(" = ", 1)[-1])
        if len(nx) != len(ny) or not all(close(p, q) for p, q in zip(nx, ny)):
            bad.append(f"{x!r} vs {y!r}")
    print(f"shimcheck: {len(a)} operations compared between the shim and rust_decimal, {len(bad)} disagreements")
    for l in bad[:10]:
        print("  " + l)
    return 2 if bad else 0
