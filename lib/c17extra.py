"""C17's rounding kernel on the REAL rust_decimal: KANI K5 over cgt_format::round_gbp (thorough tier only: about 5 minutes)."""
import time

from . import kani, symx


def kani_round(tier, seed):
    out = {"violations": [], "inconclusive": [], "evidence": {"engine": "KANI 0.68 / CBMC 6.11 (cadical)", "harnesses": [],
           "functions_encoded": ["cgt_format::round_gbp -> rust_decimal::Decimal::round_dp_with_strategy(2, MidpointAwayFromZero) (the real crate, not the shim)"],
           "bounds": "every Decimal with a 32-bit mantissa, either sign, scale <= 4 (unwind 12, unwinding assertions on); thorough tier only"}}
    if tier != "thorough":
        out["evidence"]["note"] = "K5 is not run in the quick tier (about 5 minutes); the SYMX obligations decide both serialisers on midpoints against the shim's exact rounding"
        return out
    t0 = time.time()
    r = kani.run_harness("k5_round_gbp_half_away_from_zero", timeout_s=2400, mem_gb=16)
    out["evidence"]["harnesses"].append(r)
    if r["status"] == "failed":
        rec = {"id": "roundscan", "base": "2024-01-10", "lines": [], "opts": {}, "values": {}}
        rr = symx.run_replay("C17round", [rec], "c17round")[0]
        bad = [o for o in rr["obs"] if o["v"] == "R"]
        if bad:
            out["violations"].append({"property": "C17", "engine": "KANI", "harnesses_failed": [r], "native_scan": bad[0]["why"], "record": rec, "harness_prop": "C17round",
                                      "obligation": bad[0]["n"], "replay": "./check C17 --replay <this file> re-runs the native scan of round_gbp"})
        else:
            out["inconclusive"].append(f"KANI K5 reports failed checks ({r['detail'][:200]}) but the native scan of round_gbp finds no disagreement")
    elif r["status"] == "inconclusive":
        out["inconclusive"].append(f"KANI harness {r['harness']} inconclusive: {r['detail'][:200]}")
    out["evidence"]["seconds"] = round(time.time() - t0, 1)
    return out
