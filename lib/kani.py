"""KANI engine: CBMC over the real compiled code for the chrono / integer / rounding kernels (DESIGN.md 1.2)."""
import os
import re
import shutil
import subprocess
import time

from . import symx


def crate_dir():
    src = os.path.join(symx.ROOT, "kani")
    if not symx.SHADOW:
        return src
    dst = os.path.join(symx.BUILD, "kani-src")
    shutil.rmtree(dst, ignore_errors=True)
    shutil.copytree(src, dst, ignore=shutil.ignore_patterns("target", "Cargo.lock"))
    for f in ("Cargo.toml", "build.rs"):
        p = os.path.join(dst, f)
        txt = open(p).read().replace("/repo/", symx.REPO + "/")
        open(p, "w").write(txt)
    return dst


def run_harness(name, timeout_s=600, mem_gb=12):
    """returns dict(status: success|failed|inconclusive, checks, failed_checks, covers_sat, covers_total, seconds, detail)"""
    d = crate_dir()
    lock = os.path.join(d, "Cargo.lock")
    if not os.path.exists(lock):
        shutil.copy(os.path.join(symx.REPO, "Cargo.lock"), lock)
    e = symx.env()
    e["CARGO_TARGET_DIR"] = os.path.join(symx.BUILD, "kani")
    cmd = f"ulimit -v {mem_gb * 1024 * 1024}; exec timeout {timeout_s} cargo kani --harness {name} --output-format terse"
    t0 = time.time()
    p = subprocess.run(["bash", "-c", cmd], cwd=d, env=e, capture_output=True, text=True)
    out = p.stdout + p.stderr
    sec = time.time() - t0
    res = {"harness": name, "seconds": round(sec, 1), "status": "inconclusive", "detail": ""}
    m = re.search(r"\*\* (\d+) of (\d+) failed", out)
    if m:
        res["failed_checks"], res["checks"] = int(m.group(1)), int(m.group(2))
    c = re.search(r"\*\* (\d+) of (\d+) cover properties satisfied", out)
    if c:
        res["covers_sat"], res["covers_total"] = int(c.group(1)), int(c.group(2))
    if "VERIFICATION:- SUCCESSFUL" in out and m and int(m.group(1)) == 0:
        if c and int(c.group(1)) < int(c.group(2)):
            res["status"] = "inconclusive"
            res["detail"] = "a reachability witness (kani::cover!) was not satisfied: harness may be vacuous"
        elif "unwinding assertion" in out and "FAILURE" in out:
            res["status"] = "inconclusive"
            res["detail"] = "unwinding assertion failed"
        else:
            res["status"] = "success"
    elif "VERIFICATION:- FAILED" in out and m and int(m.group(1)) > 0 and "Status: ERROR" not in out:
        res["status"] = "failed"
        fails = re.findall(r"Failed Checks: (.*)", out)
        res["detail"] = "; ".join(fails[:5])
    else:
        res["detail"] = f"rc={p.returncode} " + " | ".join(out.strip().splitlines()[-4:])[-400:]
    return res
