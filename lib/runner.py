"""Generic flow of a SYMX check: explore, tally obligations, replay refutations and path witnesses on the
real build, match known findings, write evidence, decide the exit code."""
import collections
import json
import os
import time

from . import findings, symx
from .skeletons import shape

EVID = os.environ.get("VERIF_EVID") or ("/verif/evidence" if not symx.SHADOW else os.path.join(symx.BUILD, "evidence"))


def values_record(sk, values, leaf=None):
    r = dict(sk)
    r["values"] = values
    ch = ((leaf or {}).get("extra") or {}).get("choices")
    if ch is not None:
        r = dict(r)
        r["opts"] = dict(r["opts"], choices=ch)
    return r


def residue_prone(sk):
    """a SPLIT/UNSPLIT ratio whose reciprocal is not a terminating decimal (1/3, 2/5 is fine)"""
    from fractions import Fraction
    for l in sk.get("lines") or []:
        if l[0] in ("X", "U") and len(l) > 3 and l[3] and l[3] != "sym":
            d = Fraction(l[3]).numerator if l[0] == "U" or True else 1
            for p in (2, 5):
                while d % p == 0:
                    d //= p
            n = Fraction(l[3]).denominator
            for p in (2, 5):
                while n % p == 0:
                    n //= p
            if d != 1 or n != 1:
                return True
    return False


def sig_equal(a, b):
    return json.dumps(a, sort_keys=True) == json.dumps(b, sort_keys=True)


def run_property(spec, tier, seed):
    """spec: dict(id, families(tier, seed) -> list of skeleton dicts, entry_points, bounds(tier) -> str,
    assumptions, outside, nontrivial(leaves_of_skeleton) -> bool, harness_prop (defaults to id))"""
    pid = spec["id"]
    hp = spec.get("harness_prop", pid)
    t0 = time.time()
    symx.HOOK = bool(spec.get("hook"))
    try:
        bt = symx.build_all()
    except symx.BuildError as e:
        print(f"INCONCLUSIVE property={pid} build failed")
        symx.log(str(e))
        return 2
    sks = spec["families"](tier, seed)
    by_id = {s["id"]: s for s in sks}
    assert len(by_id) == len(sks), "duplicate skeleton ids"
    symx.log(f"[{pid}] {len(sks)} skeletons, tier {tier}, build {bt:.1f}s")
    t1 = time.time()
    extra_env = spec.get("env", {})
    # other engines of a composite check (KANI / SRCX / PEGSMT) run alongside the symbolic exploration
    from concurrent.futures import ThreadPoolExecutor
    extra_pool = ThreadPoolExecutor(4)
    extra_futs = [extra_pool.submit(fn, tier, seed) for fn in spec.get("extra_engines", [])]
    leaves, sums, fails = symx.run_symx(hp, sks, pid, chunk=spec.get("chunk", 8), extra_env=extra_env)
    explore_s = time.time() - t1

    # --- tallies
    ob_count = collections.Counter()
    ob_by_name = collections.defaultdict(collections.Counter)
    refuted = []  # (leaf, ob)
    unknown = []
    outcomes = collections.Counter()
    leaves_by_sk = collections.defaultdict(list)
    for lf in leaves:
        leaves_by_sk[lf["sk"]].append(lf)
        outcomes[lf["outcome"]] += 1
        for ob in lf["obs"]:
            ob_count[ob["v"]] += 1
            ob_by_name[ob["n"]][ob["v"]] += 1
            if ob["v"] == "R":
                refuted.append((lf, ob))
            elif ob["v"] == "U":
                unknown.append((lf, ob))
    tot = collections.Counter()
    bad_sk = []
    for s in sums:
        for k in ("leaves", "forks", "checks", "solver_us", "decisions", "unknown_branch", "proves", "prove_us", "capped", "watchdog"):
            tot[k] += s.get(k, 0)
        if s.get("status", 0) != 0 or s.get("child_fail", 0) != 0:
            bad_sk.append(s)
    missing = [s for s in by_id if s not in {x["sk"] for x in sums}]
    panics = [lf for lf in leaves if lf["outcome"] == "panic" and not spec.get("panic_is_subject")]

    # --- replay refutations on the real build
    replayed = 0
    reproduced = []  # (leaf, ob, replay_record, replay_result)
    not_reproduced = []
    if refuted:
        recs, idx = [], []
        seen_per_group = collections.Counter()
        for lf, ob in refuted:
            grp = (shape(by_id[lf["sk"]]) if spec.get("group_by_shape", True) else lf["sk"], ob["n"])
            seen_per_group[grp] += 1
            if seen_per_group[grp] > spec.get("replays_per_group", 2):
                continue
            vals = symx.model_to_values(ob["m"] or {})
            if vals is None or ob["m"] is None:
                not_reproduced.append((lf, ob, "model not rational / absent"))
                continue
            recs.append(values_record(by_id[lf["sk"]], vals, lf))
            idx.append((lf, ob))
        res = symx.run_replay(hp, recs, pid)
        replayed += len(res)
        for (lf, ob), rec, rr in zip(idx, recs, res):
            rob = next((o for o in rr["obs"] if o["n"] == ob["n"]), None)
            if (rob or {}).get("ab", rr.get("assume_bad")):
                not_reproduced.append((lf, ob, "replay input violates an assumption"))
            elif rob is not None and rob["v"] == "R":
                reproduced.append((lf, ob, rec, rr))
            elif spec.get("panic_is_subject") and rr["outcome"] == "panic":
                reproduced.append((lf, ob, rec, rr))
            else:
                not_reproduced.append((lf, ob, f"replay outcome {rr['outcome']} obligations {[(o['n'], o['v']) for o in rr['obs']]}"))

    # a counterexample without a usable model is not a failure of the encoding when another counterexample of the same
    # (ledger shape, obligation) group did reproduce
    okgroups = {(shape(by_id[lf["sk"]]), ob["n"]) for lf, ob, _, _ in reproduced}
    not_reproduced = [x for x in not_reproduced if not ("model not rational" in x[2] and (shape(by_id[x[0]["sk"]]), x[1]["n"]) in okgroups)]

    # ... nor when it falls into the role of a recorded known finding (it is then not reported as a violation anyway)
    known0 = findings.load()
    unreplayed_known = [x for x in not_reproduced if "model not rational" in x[2] and findings.match(known0, pid, by_id[x[0]["sk"]], x[0], x[1])]
    not_reproduced = [x for x in not_reproduced if x not in unreplayed_known]

    # --- path witnesses
    wit_leaves = [lf for lf in leaves if lf.get("witness")]
    wit_ok = 0
    residue_refusals = 0
    wit_bad = []
    if wit_leaves:
        recs, keep = [], []
        for lf in wit_leaves:
            vals = symx.model_to_values(lf["witness"])
            # only witnesses on the decimal grid are comparable: other rationals are not exactly representable by the
            # real Decimal, and a path that sits on an equality then diverges by decimal residue (outside the claim)
            if vals is None or any("/" in v or len(v.partition(".")[2]) > 6 for v in vals.values()):
                continue
            recs.append(values_record(by_id[lf["sk"]], vals, lf))
            keep.append(lf)
        res = symx.run_replay(hp, recs, pid + "-wit")
        for lf, rec, rr in zip(keep, recs, res):
            if rr.get("assume_bad"):
                continue
            if sig_equal(lf["sig"], rr["sig"]) and (lf["outcome"] == rr["outcome"] or spec.get("outcome_free")):
                wit_ok += 1
                continue
            # the real build behaves differently on this solver-chosen input. If the property's own obligations are refuted
            # by the REAL run, that is a counterexample on the real code (typically 28-digit decimal residue, which the exact
            # symbolic arithmetic cannot see); otherwise the encoding and the code disagree and the run is inconclusive.
            bad = [o for o in rr["obs"] if o["v"] == "R" and not o.get("ab")]
            if bad:
                reproduced.append((dict(lf, msg=rr.get("msg", "")), bad[0], rec, rr))
            elif pid != "C05" and residue_prone(by_id[lf["sk"]]) and str(rr["outcome"]).startswith("err"):
                # a refusal by the real build on a ledger with a split ratio whose reciprocal does not terminate: decimal
                # residue, the subject of C05's boundary/witness replays, not of this property
                residue_refusals += 1
            else:
                wit_bad.append((lf, rec, rr))

    # --- boundary witnesses: solver-chosen inputs on a boundary of the path (e.g. "the entire holding is sold"), replayed on
    # the real build. An obligation refuted THERE is a counterexample on the real code (decimal residue is not modelled
    # symbolically, so the symbolic run cannot see it).
    bw_recs, bw_src = [], []
    for lf in leaves:
        for w in ((lf.get("extra") or {}).get("boundary_witnesses") or []):
            vals = symx.model_to_values(w)
            if vals is None or any("/" in v for v in vals.values()):
                continue
            bw_recs.append(values_record(by_id[lf["sk"]], vals, lf))
            bw_src.append(lf)
    bw_checked = 0
    if bw_recs:
        for lf, rec, rr in zip(bw_src, bw_recs, symx.run_replay(hp, bw_recs, pid + "-bw")):
            bw_checked += 1
            for rob in rr["obs"]:
                if rob["v"] == "R" and not rob.get("ab"):
                    reproduced.append((dict(lf, msg=rr.get("msg", "")), rob, rec, rr))
                    break

    # --- classify violations
    known = findings.load()
    os.makedirs(os.path.join(EVID, "replays"), exist_ok=True)
    new_violations = []
    known_hits = collections.OrderedDict()
    for lf, ob, rec, rr in reproduced:
        f = findings.match(known, pid, by_id[lf["sk"]], lf, ob)
        if f:
            known_hits.setdefault(f["id"], (f, lf, ob, rec))
        else:
            new_violations.append((lf, ob, rec, rr))
    # refutations that were not replayed (beyond replays_per_group) belong to a group that was
    lines = []
    for fid, (f, lf, ob, rec) in known_hits.items():
        lines.append(f"KNOWN-FINDING: property={pid} {f['what']} [{fid}]")
    vio_paths = []
    seen_v = set()
    for n, (lf, ob, rec, rr) in enumerate(new_violations):
        key = (shape(by_id[lf["sk"]]), ob["n"])
        if key in seen_v:
            continue
        seen_v.add(key)
        path = os.path.join(EVID, "replays", f"{pid}-{len(vio_paths)}.json")
        with open(path, "w") as fh:
            json.dump({"property": pid, "harness_prop": hp, "obligation": ob["n"], "record": rec, "ledger": (lf.get("extra") or {}).get("ledger"),
                       "failed_atoms": next((o.get("atoms") for o in rr["obs"] if o["n"] == ob["n"]), None), "why": ob.get("why")}, fh, indent=1)
        vio_paths.append(path)
        lines.append(f"VIOLATION property={pid} replay={path}")

    inconclusive_reasons = []
    extra_results = []
    for fut in extra_futs:
        r = fut.result()
        extra_results.append(r)
        for v in r.get("violations", []):
            path = os.path.join(EVID, "replays", f"{pid}-{len(vio_paths)}.json")
            with open(path, "w") as fh:
                json.dump(v, fh, indent=1)
            vio_paths.append(path)
            lines.append(f"VIOLATION property={pid} replay={path}")
        inconclusive_reasons += r.get("inconclusive", [])
    if fails:
        inconclusive_reasons.append(f"{len(fails)} harness processes failed: {fails[0][2][-300:]!r}")
    if bad_sk:
        inconclusive_reasons.append(f"{len(bad_sk)} skeletons ended with a failed path process (status {bad_sk[0].get('status')})")
    if missing:
        inconclusive_reasons.append(f"{len(missing)} skeletons produced no summary")
    if not_reproduced:
        inconclusive_reasons.append(f"{len(not_reproduced)} solver counterexamples did not reproduce on the real build: {not_reproduced[0][2]} (skeleton {shape(by_id[not_reproduced[0][0]['sk']])}, obligation {not_reproduced[0][1]['n']})")
    if wit_bad:
        lf, rec, rr = wit_bad[0]
        inconclusive_reasons.append(f"{len(wit_bad)} path witnesses disagree with the real build (skeleton {shape(by_id[lf['sk']])}: symbolic {lf['outcome']} {lf['sig']} vs real {rr['outcome']} {rr['sig']})")
    if panics:
        inconclusive_reasons.append(f"{len(panics)} paths ended in a panic of the code under test: {panics[0]['msg'][:120]!r} (skeleton {shape(by_id[panics[0]['sk']])})")

    # --- evidence
    nontrivial = sum(1 for sid, ls in leaves_by_sk.items() if spec.get("nontrivial", lambda ls: len(ls) >= 2)(ls))
    samples = []
    for sid in list(leaves_by_sk)[:: max(1, len(leaves_by_sk) // 4)][:4]:
        ls = leaves_by_sk[sid]
        samples.append({
            "skeleton": shape(by_id[sid]), "base": by_id[sid]["base"], "opts": by_id[sid]["opts"], "paths": len(ls),
            "first_path": {"trail": ls[0]["trail"], "outcome": ls[0]["outcome"], "ledger": ls[0].get("extra", {}).get("ledger"),
                           "obligations": [[o["n"], o["v"]] for o in ls[0]["obs"]]},
        })
    wall = time.time() - t0
    ev = {
        "property_id": pid,
        "tier": tier,
        "seed": seed,
        "level": "model_checking",
        "coverage": {
            "states": tot["leaves"],
            "transitions": tot["decisions"],
            "traces_validated_against_impl": wit_ok + len(reproduced),
            "samples": samples,
            "exhaustive": not tot["capped"] and not tot["watchdog"] and not inconclusive_reasons and not unknown,
            "skeletons": len(sks),
            "distinct_nontrivial": nontrivial,
            "rule": spec.get("rule", "one case = one skeleton (concrete kinds/tickers/days, all numeric fields symbolic); non-trivial = explored with >= 2 feasible paths"),
            "paths_by_outcome": dict(outcomes),
            "forks": tot["forks"],
            "obligations": sum(ob_count.values()),
            "discharged": ob_count["P"],
            "refuted": ob_count["R"],
            "inconclusive": ob_count["U"],
            "obligations_by_name": {k: dict(v) for k, v in sorted(ob_by_name.items())},
            "solver": "z3 5.1.0 in-process (branch feasibility: incremental; obligations: fresh solver per query)",
            "solver_queries": tot["checks"] + tot["proves"],
            "solver_seconds": round((tot["solver_us"] + tot["prove_us"]) / 1e6, 2),
            "branch_queries_unknown": tot["unknown_branch"],
            "paths_capped": tot["capped"],
            "paths_abandoned_by_solver_watchdog": tot["watchdog"],
            "path_witnesses_checked": wit_ok + len(wit_bad),
            "boundary_witnesses_replayed": bw_checked,
            "real_build_residue_refusals_at_witnesses": residue_refusals,
            "counterexamples_replayed": replayed,
            "counterexamples_reproduced": len(reproduced),
            "known_findings_hit": list(known_hits),
            "known_role_refutations_without_model": len(unreplayed_known),
            "functions_encoded": spec["entry_points"],
            "bounds": spec["bounds"](tier),
            "outside_claim": spec.get("outside", []),
            "explore_seconds": round(explore_s, 1),
            "build_seconds": round(bt, 1),
            "explanation": "; ".join(inconclusive_reasons) if inconclusive_reasons else "all obligations decided within the stated bounds",
            "other_engines": [r.get("evidence", {}) for r in extra_results],
        },
        "assumptions": spec.get("assumptions", []),
        "wall_s": round(wall, 1),
        "violations": len(vio_paths),
    }
    os.makedirs(EVID, exist_ok=True)
    with open(os.path.join(EVID, f"{pid}.json"), "w") as fh:
        json.dump(ev, fh, indent=1)
    for l in lines:
        print(l)
    print(f"[{pid}] tier={tier} skeletons={len(sks)} paths={tot['leaves']} obligations={sum(ob_count.values())} "
          f"proved={ob_count['P']} refuted={ob_count['R']} unknown={ob_count['U']} witnesses={wit_ok} "
          f"replayed={replayed} reproduced={len(reproduced)} wall={wall:.1f}s")
    if vio_paths:
        return 1
    if inconclusive_reasons:
        for r in inconclusive_reasons:
            print(f"INCONCLUSIVE property={pid} {r}")
        return 2
    if unknown:
        print(f"NOTE property={pid} {len(unknown)} obligations left undecided by the solver within the time cap (counted as inconclusive in the evidence, not as passes)")
    return 0
