"""Skeleton families: the concrete, fully enumerated structure of the ledgers explored by SYMX.

A skeleton is a list of lines [kind, ticker, day(, ratio)] in canonical order (by day, then kind
B < S < C < M < D < X < U, i.e. corporate actions last within a day -- the reading the tool's main
pass uses).  Numeric fields are NOT part of a skeleton: they are symbolic in the harness.
"""
import itertools

KORD = {"B": 0, "S": 1, "C": 2, "M": 3, "D": 4, "X": 5, "U": 6}
SHORT = [0, 1, 30, 31]
FULL = [0, 1, 29, 30, 31, 32, 61]
# plain; 29 Feb inside the window; window straddles 5/6 April; straddles the end of a normal year; straddles the end of a leap year
BASES = ["2024-01-10", "2024-02-01", "2024-03-07", "2023-12-05", "2024-12-05"]


def canon_order(lines):
    return sorted(lines, key=lambda l: (l[2], l[1], KORD[l[0]], l[3] if len(l) > 3 else ""))


def canon_tickers(lines):
    """remove the ticker-renaming symmetry: tickers are renamed in order of first appearance"""
    m = {}
    out = []
    for l in lines:
        if l[1] not in m:
            m[l[1]] = "AB"[len(m)] if len(m) < 2 else "C"
        out.append([l[0], m[l[1]]] + list(l[2:]))
    return out


def multisets(items, n):
    return itertools.combinations_with_replacement(items, n)


def bs_family(n_min, n_max, days, tickers=("A",), need_sell=True, kinds=("B", "S")):
    """all multisets of (kind, ticker, day) lines of size n_min..n_max"""
    items = [(k, t, d) for d in days for t in tickers for k in kinds]
    seen = set()
    for n in range(n_min, n_max + 1):
        for ms in multisets(items, n):
            lines = canon_order([list(x) for x in ms])
            if need_sell and not any(l[0] == "S" for l in lines):
                continue
            if len(tickers) > 1:
                if len({l[1] for l in lines}) < 2:
                    continue
                lines = canon_order(canon_tickers(lines))
            key = tuple(tuple(l) for l in lines)
            if key in seen:
                continue
            seen.add(key)
            yield lines


def with_events(base_lines_iter, event_kinds, days, ratios=("2",), max_events=1, tickers=("A",)):
    """insert up to max_events corporate-action / event lines at every palette day"""
    for lines in base_lines_iter:
        evs = []
        for k in event_kinds:
            for d in days:
                for t in tickers:
                    if k in ("X", "U"):
                        for r in ratios:
                            evs.append([k, t, d, r])
                    else:
                        evs.append([k, t, d])
        for m in range(1, max_events + 1):
            for combo in itertools.combinations(evs, m):
                yield canon_order([list(l) for l in lines] + [list(e) for e in combo])


def spans_window(lines):
    ds = [l[2] for l in lines]
    return max(ds) - min(ds) >= 29


def mk(idx, id_prefix, lines, base=BASES[0], **opts):
    o = {"mode": "QPF"}
    o.update(opts)
    return {"id": f"{id_prefix}{idx}", "base": base, "lines": lines, "opts": o}


def shape(sk):
    """compact human-readable form, e.g. 'B0 S30 B31 S31'"""
    out = []
    for l in sk["lines"]:
        t = "" if l[1] == "A" else l[1].lower()
        r = f"x{l[3]}" if len(l) > 3 and l[3] else ""
        out.append(f"{l[0]}{t}{l[2]}{r}")
    return " ".join(out)
