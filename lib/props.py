"""Per-property specifications for the SYMX runner: skeleton families per tier, entry points, bounds."""
from . import skeletons as sk
from .skeletons import BASES, FULL, SHORT, mk

WIT = 7  # every ~7th leaf gets a path witness


def _number(prefix, items, **opts):
    return [mk(i, prefix, lines, base=base, wit=WIT, **opts) for i, (lines, base) in enumerate(items)]


def matching_family(tier, seed, events=(), need_sell=True, two_sec=True):
    """B/S ledgers of one security on the short palette (all N <= 5), again at the other calendar positions when
    they span a 30-day window, plus split/unsplit placements and two-security ledgers."""
    items = []
    nmax = 5
    core = list(sk.bs_family(1, nmax, SHORT, need_sell=need_sell))
    for l in core:
        items.append((l, BASES[0]))
    for l in core:
        if len(l) <= (4 if tier == "quick" else 5) and sk.spans_window(l):
            for b in BASES[1:]:
                items.append((l, b))
    if tier == "thorough":
        for l in sk.bs_family(6, 6, SHORT, need_sell=need_sell):
            items.append((l, BASES[0]))
        for l in sk.bs_family(1, 4, FULL, need_sell=need_sell):
            items.append((l, BASES[0]))
            if sk.spans_window(l):
                items.append((l, BASES[2]))
    else:
        # a VERIF_SEED-rotated 1/8 slice of N = 6
        six = list(sk.bs_family(6, 6, SHORT, need_sell=need_sell))
        items += [(l, BASES[0]) for i, l in enumerate(six) if i % 8 == seed % 8]
    if events:
        nb = 3
        base = list(sk.bs_family(2, nb, SHORT, need_sell=need_sell))
        ratios = ("2",) if tier == "quick" else ("2", "5/2")
        if tier == "thorough":
            # four trade lines plus one event line: splits/unsplits only (capital events at three lines)
            b4 = list(sk.bs_family(4, 4, SHORT, need_sell=need_sell))
            for l in sk.with_events(b4, tuple(e for e in events if e in ("X", "U")), SHORT, ratios=("2",), max_events=1):
                items.append((l, BASES[0]))
        for l in sk.with_events(base, events, SHORT, ratios=ratios, max_events=1):
            items.append((l, BASES[0]))
        if tier == "thorough":
            base3 = list(sk.bs_family(2, 3, SHORT, need_sell=need_sell))
            for l in sk.with_events(base3, events, [1, 30], ratios=("2",), max_events=2):
                if sum(1 for x in l if x[0] in events) == 2:
                    items.append((l, BASES[0]))
    if events and two_sec:
        # a corporate action of ANOTHER security (which has no trades of its own) next to this security's trades
        fev = tuple(e for e in events if e in ("X", "U", "C", "M"))
        basef = list(sk.bs_family(2, 3 if tier == "quick" else 4, SHORT, need_sell=need_sell))
        for l in sk.with_events(basef, fev[:2], [1, 30] if tier == "quick" else SHORT, ratios=("2",), max_events=1, tickers=("B",)):
            items.append((l, BASES[0]))
    if two_sec:
        n2 = 4 if tier == "quick" else 5
        for l in sk.bs_family(2, n2, [0, 1, 30] if tier == "quick" else SHORT, tickers=("A", "B"), need_sell=need_sell):
            items.append((l, BASES[0]))
    # de-duplicate (events at N may re-create plain ledgers)
    seen, out = set(), []
    for l, b in items:
        k = (tuple(tuple(x) for x in l), b)
        if k not in seen:
            seen.add(k)
            out.append((l, b))
    return out


MATCHER_ENTRY = [
    "cgt_core::models::transactions_to_gbp",
    "cgt_core::matcher::Matcher::process (preprocess, compute_cost_offsets, process_sell, move_buy_to_pool, process_corporate_action)",
    "cgt_core::matcher::same_day::match_same_day",
    "cgt_core::matcher::bed_and_breakfast::match_bed_and_breakfast (available_for_bnb_after_reservations, matched_buy_cost, matched_quantities_with_split_ratio)",
    "cgt_core::matcher::section104::match_section_104",
    "cgt_core::matcher::acquisition_ledger::AcquisitionLedger::*",
    "cgt_core::matcher::compute_proceeds",
]
REPORT_ENTRY = MATCHER_ENTRY + [
    "cgt_core::calculator::calculate (group_matches_into_disposals, calculate_totals, build_all_tax_year_summaries, aggregate_dividends)",
    "cgt_core::config::Config::get_exemption",
]


def report_level(items, nmax_lines=4, max_sell_days=2, quick=True):
    out = []
    for l, b in items:
        if len(l) > nmax_lines or len({(x[1], x[2]) for x in l if x[0] == "S"}) > max_sell_days:
            continue
        if quick and len(l) == nmax_lines and (any(x[0] not in "BS" for x in l) or len({x[1] for x in l}) > 1):
            continue
        out.append((l, b))
    return out


def interleaved_family(tier):
    """non-canonical line orders: a day's buys and sells of one security interleaved (so that the tool keeps several
    unmerged lots / sales for that day), optionally after an earlier buy and sale whose 30-day match reaches into that day.
    The conservation laws (C02, C03) do not depend on line order."""
    import itertools
    out = []
    day_kinds = ["BSB", "SBS", "BSBS", "BSBSB", "BBSB", "BSBB", "SBSB"]
    if tier == "thorough":
        day_kinds += ["BSSB", "SBBS", "BSBBS", "SBSBS"]
    for pre in ([], [["B", "A", 0]], [["B", "A", 0], ["S", "A", 1]], [["B", "A", 0], ["S", "A", 0], ["S", "A", 1]]):
        for dk in day_kinds:
            for d in ((30, 31) if pre else (0,)):
                lines = [list(x) for x in pre] + [[k, "A", d] for k in dk]
                # (B0 S1 + SBSBS: five alternating unmerged lines after a 30-day match make the simplex rationals blow up;
                # the skeleton would only be explored up to its time budget, so it is left outside the family)
                if len(lines) <= (6 if tier == "quick" else 7) and not (len(pre) == 2 and dk == "SBSBS"):
                    out.append((lines, BASES[0]))
                # followed by a repurchase within 30 days
                if len(lines) <= (5 if tier == "quick" else 6):
                    out.append((lines + [["B", "A", d + 30]], BASES[0]))
    # same-day lines separated by another security's line instead
    for pre in ([["B", "A", 0], ["S", "A", 1]], [["B", "A", 0], ["B", "B", 0]]):
        for dk in ("BB", "BBB", "BSB", "SS", "SSB"):
            lines = [list(x) for x in pre]
            for i, k in enumerate(dk):
                lines.append([k, "A", 30])
                if i < len(dk) - 1:
                    lines.append(["B", "B", 30])
            out.append((lines, BASES[0]))
            out.append((lines + [["B", "A", 31]], BASES[0]))
    return out


def fam_c01(tier, seed):
    items = matching_family(tier, seed, events=("X", "U"))
    sks = _number("m", items)
    sks += _number("i", interleaved_family(tier))
    sks += _number("x", cross_reservation_family())
    sks += _number("d", double_sale_split_family())
    sks += _number("w", two_event_window_family())
    rep = report_level([it for it in items if it[1] == BASES[0]], 4 if tier == "quick" else 5, quick=tier == "quick")
    sks += _number("r", rep, level="report")
    return sks


def double_sale_split_family():
    """two sales, the first identified with a later repurchase, and a split/unsplit between the second sale and that
    repurchase: the holding check, the claims on the repurchase and the pool live in different units here"""
    out = []
    for sx in ("X", "U"):
        for r in ("2", "3"):
            out.append(([["B", "A", 0], ["S", "A", 1], ["S", "A", 30], [sx, "A", 30, r], ["B", "A", 31]], BASES[0]))
            out.append(([["B", "A", 0], ["S", "A", 0], ["S", "A", 1], [sx, "A", 1, r], ["B", "A", 30]], BASES[0]))
            out.append(([["B", "A", 0], ["S", "A", 1], ["S", "A", 30], [sx, "A", 30, r], ["B", "A", 31], ["S", "A", 31]], BASES[0]))
    return [(sk.canon_order(l), b) for l, b in out]


def bnb_split_event_family():
    """a disposal identified with a purchase in the following 30 days, a split/unsplit between the two, and a capital
    return / accumulation after the purchase (three mechanisms that only meet on such ledgers)"""
    out = []
    for sx in ("X", "U"):
        for (ds, dx, db, de) in ((1, 1, 30, 31), (1, 30, 31, 61), (0, 1, 30, 61), (1, 30, 31, 31), (0, 0, 30, 31)):
            for ev in ("C", "M"):
                out.append(([["B", "A", 0], ["S", "A", ds], [sx, "A", dx, "2"], ["B", "A", db], [ev, "A", de]], BASES[0]))
        out.append(([["B", "A", 0], ["S", "A", 1], [sx, "A", 30, "3"], ["B", "A", 31], ["C", "A", 61], ["S", "A", 61]], BASES[0]))
    return [(sk.canon_order(l), b) for l, b in out]


def two_event_window_family():
    """corporate actions on TWO different days inside one disposal's 30-day window, with a repurchase on the second
    event day (listed before or after that day's event line), optionally another repurchase on the first event day"""
    out = []
    for (d1, d2) in ((2, 30), (30, 31), (15, 31)):
        for (k1, r1, k2, r2) in (("X", "2", "X", "2"), ("X", "2", "U", "4"), ("U", "2", "X", "3"), ("U", "2", "U", "2")):
            for first_day_buy in (False, True):
                for ev_first in (True, False):
                    l = [["B", "A", 0], ["S", "A", 1], [k1, "A", d1, r1]]
                    if first_day_buy:
                        l.append(["B", "A", d1])
                    l += [[k2, "A", d2, r2], ["B", "A", d2]] if ev_first else [["B", "A", d2], [k2, "A", d2, r2]]
                    out.append((l, BASES[0]))
    # ONE corporate action inside the window followed by lines of the security on two or three later days of the window
    # (the window scan carries the ratio across every later date change): repurchases, or a sale then a repurchase
    # (ratios with a terminating reciprocal only: with ratio 3 the real build's 28-digit quotients leave a dust leg of 1e-28
    # shares - BUY 0.02; SELL 0.02; SPLIT 3; BUY 0.04; BUY 0.01; BUY 0.01 - which is decimal residue, outside the claim, DESIGN 8.6)
    for (k, r) in (("X", "2"), ("U", "2"), ("X", "5/2")):
        for later in ([["B", "A", 7], ["B", "A", 13]], [["S", "A", 7], ["B", "A", 13]], [["B", "A", 7], ["B", "A", 13], ["B", "A", 29]], [["D", "A", 7], ["B", "A", 13]]):
            out.append(([["B", "A", 0], ["S", "A", 1], [k, "A", 3, r]] + later, BASES[0]))
    return out


def fam_c02(tier, seed):
    items = matching_family(tier, seed, events=("X", "U", "C", "M", "D")) + bnb_split_event_family() + double_sale_split_family() + two_event_window_family()
    sks = _number("m", items)
    sks += _number("i", interleaved_family(tier))
    rep = report_level([it for it in items if it[1] == BASES[0]], 4 if tier == "quick" else 5, quick=tier == "quick")
    sks += _number("r", rep, level="report")
    return sks


def fam_c05(tier, seed):
    items = matching_family(tier, seed, events=("X", "U"))
    # ratios whose reciprocal does not terminate (decimal residue on the real build; see boundary witnesses)
    b3 = list(sk.bs_family(2, 3, SHORT, need_sell=True))
    res3 = [(l, BASES[0]) for l in sk.with_events(b3, ("X", "U"), [0, 1, 30], ratios=("3",), max_events=1)]
    sks = _number("m", items)
    sks += _number("d", double_sale_split_family())
    # ... with a concrete witness of EVERY path replayed on the real build
    sks += [mk(i, "z", l, base=b, wit=1) for i, (l, b) in enumerate(res3)]
    sks += _number("i", interleaved_family(tier))
    rep = report_level([it for it in items if it[1] == BASES[0]], 3 if tier == "quick" else 4, quick=False)
    sks += _number("r", rep, level="report")
    return sks


def bounds_matching(tier):
    if tier == "quick":
        return ("every B/S ledger of one security with 1..5 lines on day offsets {0,1,30,31} from 2024-01-10 (and, for ledgers of <= 4 lines spanning >= 29 days, "
                "from 2024-02-01, 2024-03-07, 2023-12-05, 2024-12-05 = end of a leap year); a seed-rotated 1/8 of the 6-line ledgers; 2..3 trade lines plus one corporate-action/event line at every "
                "palette day (ratio 2); two securities with 2..4 lines on {0,1,30}; the same obligations through calculator::calculate for ledgers of <= 4 lines and <= 2 disposal days; "
                "a split/unsplit of a second security that has no trades of its own; ~30 non-canonical 'interleaved' line orders (a day's buys and sells of one security alternating, or separated by another security's line, after an earlier buy and sale and before a repurchase); three 7-line ledgers of two securities repurchasing on one shared day; (C02/C03/C10/C11: a 30-day match across a split followed by a capital event; C05: split ratio 3 with a witness of every path and boundary witnesses replayed on the real build); "
                "every quantity, price, fee, total a real-valued symbol (quantity > 0, money >= 0); <= 20000 paths per skeleton")
    return ("every B/S ledger of one security with 1..6 lines on {0,1,30,31} from 2024-01-10, 1..5 lines at the three other calendar positions, 1..4 lines on the full palette "
            "{0,1,29,30,31,32,61} from 2024-01-10 and (when spanning a window) 2024-03-07; 2..4 trade lines plus one event line (ratios 2, 5/2), 2..3 trade lines plus two event lines; two securities with 2..5 lines; "
            "report level for <= 5 lines; all numeric fields symbolic; <= 20000 paths per skeleton")


COMMON_ASSUME = [
    "rust_decimal::Decimal is modelled as an exact real: the 28-significant-digit rounding of products/quotients (relative error <= 5e-29) and the 96-bit overflow are not modelled",
    "dates are concrete per skeleton (palette); numeric inputs satisfy the documented validity predicate only (quantity > 0, price/fee/total >= 0, ratio > 0)",
    "skeleton lines are in canonical order (by date, corporate actions last within a day); line order is varied under C06 only",
    "the shim is validated against the real rust_decimal at setup and by path witnesses replayed on a build with the real crate on every run",
]
OUTSIDE = ["ledgers longer than the bound", "dates off the palette", "decimal residue effects (e.g. the 3-for-1 split refusal mentioned under C05)"]

SPECS = {
    "C01": dict(
        id="C01", families=fam_c01, entry_points=REPORT_ENTRY, bounds=bounds_matching, assumptions=COMMON_ASSUME + [
            "oracle: /verif/symx/harness/src/spec.rs, a reference evaluator of TCGA92 s105(1)/s106A/s104 written from the statute and docs/tax-rules.md; costs are compared only for ledgers without CAPRETURN/ACCUMULATION"],
        outside=OUTSIDE),
    "C02": dict(id="C02", families=fam_c02, entry_points=REPORT_ENTRY, bounds=bounds_matching, assumptions=COMMON_ASSUME, outside=OUTSIDE),
    "C03": dict(id="C03", families=fam_c02, entry_points=REPORT_ENTRY, bounds=bounds_matching, assumptions=COMMON_ASSUME + [
        "a CAPRETURN/ACCUMULATION takes effect iff shares of the security are held at the start of its day (conservation law over the same inputs)"], outside=OUTSIDE),
    "C05": dict(id="C05", families=fam_c05, entry_points=REPORT_ENTRY, bounds=bounds_matching, assumptions=COMMON_ASSUME + [
        "coverage predicate: running holding (acquisitions - disposals, rescaled by splits at day end) >= 0 after every day with a SELL"],
        outside=["ledgers longer than the bound", "dates off the palette", "decimal residue away from the 'entire holding sold' boundary (boundary witnesses replay that boundary on the real build for split/unsplit ratios 2 and 3)", "CLI/MCP 'no partial output' (process and I/O behaviour)"]),
}


# ---------------------------------------------------------------------------------------------- relational
def _dedup(items):
    seen, out = set(), []
    for it in items:
        k = repr(it)
        if k not in seen:
            seen.add(k)
            out.append(it)
    return out


def has_same_day_pair(lines):
    days = [l[2] for l in lines]
    return len(days) != len(set(days))


def fam_c06(tier, seed):
    sks = []
    n_all = 4 if tier == "quick" else 5
    perm = []
    for l in sk.bs_family(2, n_all, SHORT, need_sell=False):
        if len(l) <= 3 or has_same_day_pair(l):
            perm.append((l, BASES[0]))
    for l in sk.bs_family(2, 4 if tier == "thorough" else 3, [0, 1, 30], tickers=("A", "B"), need_sell=False):
        perm.append((l, BASES[0]))
    if tier == "quick":
        # 4 lines, two securities: only ledgers with a same-day pair
        for l in sk.bs_family(4, 4, [0, 30], tickers=("A", "B"), need_sell=True):
            if has_same_day_pair(l):
                perm.append((l, BASES[0]))
    # a split / capital event and trades on one day
    base3 = list(sk.bs_family(2, 3, SHORT, need_sell=True))
    for l in sk.with_events(base3, ("X", "U"), SHORT, ratios=("2",), max_events=1):
        if has_same_day_pair(l):
            perm.append((l, BASES[0]))
    for l in sk.with_events(base3, ("C", "M"), [1, 30], max_events=1):
        ev = [x for x in l if x[0] in "CM"][0]
        if any(x[0] in "BS" and x[2] == ev[2] for x in l):
            perm.append((l, BASES[0]))
    sks += _number("p", _dedup(perm), variant="perm", perms="gen" if tier == "quick" else "all")
    small = [(l, BASES[0]) for l in sk.bs_family(1, 3 if tier == "quick" else 4, SHORT, need_sell=True)]
    small += [(l, BASES[0]) for l in sk.bs_family(2, 3, [0, 30], tickers=("A", "B"), need_sell=True)]
    sks += _number("f", _dedup(small), variant="fills")
    # fills separated by another line of the day, with a later capital event / split acting on the lots they leave
    uni = []
    for ev in ("C", "M", "X"):
        e61 = [ev, "A", 61] + (["2"] if ev == "X" else [])
        e30 = [ev, "A", 30] + (["2"] if ev == "X" else [])
        uni.append(([["B", "A", 0], ["S", "A", 1], ["B", "A", 30], ["B", "B", 30], e61], BASES[0]))
        uni.append(([["B", "A", 0], ["S", "A", 1], ["B", "A", 30], ["S", "A", 30], e61], BASES[0]))
        uni.append(([["B", "A", 0], ["B", "B", 0], ["S", "A", 1], e30], BASES[0]))
        uni.append(([["B", "A", 0], ["S", "A", 1], ["B", "A", 30], ["B", "B", 30], e61, ["S", "A", 61]], BASES[0]))
    sks += _number("u", uni, variant="fills", fills="uniform")
    files = [(l, BASES[0]) for l in sk.bs_family(1, 3, [0, 1, 30], need_sell=True)]
    sks += _number("c", _dedup(files), variant="files")
    # report level (grouping into disposals, tax years, sorts): ledgers with several disposals but no same-day duplicate
    # trade lines (their weighted-average merge makes the gain-sign branches of calculate_totals stall the solver)
    def no_dup(l):
        ks = [(x[0], x[1], x[2]) for x in l]
        return len(ks) == len(set(ks))
    rep = [(l, BASES[0]) for l in sk.bs_family(2, 3, [0, 30], need_sell=True) if no_dup(l)]
    rep += [(l, BASES[0]) for l in sk.bs_family(4, 4, [0, 30], tickers=("A", "B"), need_sell=True)
            if no_dup(l) and sum(1 for x in l if x[0] == "S") == 2 and sum(1 for x in l if x[1] == "A") == 2 and l[0][0] == "B"]
    sks += _number("r", rep, variant="perm", level="report")
    return sks


def cross_reservation_family():
    """two securities that each sell early and repurchase on one shared day, one of them also selling on that day: state
    keyed by date (same-day reservations, claims on future purchases) must stay per security"""
    out = []
    for extra in (["S", "B", 30], ["S", "A", 30], ["S", "B", 31]):
        l = [["B", "A", 0], ["B", "B", 0], ["S", "A", 1], ["S", "B", 1], ["B", "A", 30], ["B", "B", 30], extra]
        out.append((sk.canon_order(l), BASES[0]))
    return out


def fam_c09(tier, seed):
    n = 4 if tier == "quick" else 5
    days = [0, 1, 30] if tier == "quick" else SHORT
    items = [(l, BASES[0]) for l in sk.bs_family(2, n, days, tickers=("A", "B"), need_sell=True)]
    # a split / capital event of B next to a 30-day match of A (B has no trades of its own)
    a3 = list(sk.bs_family(3, 3, SHORT, need_sell=True))
    for l in sk.with_events(a3, ("X", "C"), [1, 30], ratios=("2",), max_events=1, tickers=("B",)):
        items.append((l, BASES[0]))
    # capital events and splits in both securities
    b3 = list(sk.bs_family(2, 3, [0, 30], tickers=("A", "B"), need_sell=True))
    for l in sk.with_events(b3, ("X", "C", "M"), [0, 1, 30], ratios=("2",), max_events=1, tickers=("A", "B")):
        items.append((l, BASES[0]))
    items = _dedup(items + cross_reservation_family())
    sks = _number("m", items)
    rep = [it for it in items if len(it[0]) <= 3]
    # report level, two SELL lines of A on one day with a SELL (or BUY) of B standing between them: one disposal of A
    sks += _number("r", rep, level="report")
    # (concrete numbers: the obligation is structural, and five symbolic lines at report level took ten minutes)
    for k, l in enumerate(([["B", "A", 0], ["B", "B", 0], ["S", "A", 30], ["S", "B", 30], ["S", "A", 30]],
                           [["B", "A", 0], ["B", "B", 0], ["S", "A", 1], ["B", "B", 1], ["S", "A", 1]])):
        sks.append(mk(k, "s", l, base=BASES[0], level="report", mode="", wit=WIT))
    return sks


def fam_c10(tier, seed):
    ratios = ("2", "3", "5/2") if tier == "quick" else ("2", "3", "5/2", "sym")
    nb = 3 if tier == "quick" else 4
    base = list(sk.bs_family(1, nb, SHORT, need_sell=False))
    items = []
    for l in sk.with_events(base, ("X", "U"), SHORT, ratios=ratios, max_events=1):
        items.append((l, BASES[0]))
    # splits around capital events
    b2 = list(sk.bs_family(1, 2, [0, 30], need_sell=False))
    for l in sk.with_events(b2, ("C", "M"), [0, 1, 30, 31], max_events=1):
        for l2 in sk.with_events([l], ("X", "U"), [0, 1, 30], ratios=("2",), max_events=1):
            items.append((l2, BASES[0]))
    if tier == "thorough":
        b3 = list(sk.bs_family(2, 3, SHORT, need_sell=True))
        for l in sk.with_events(b3, ("X", "U"), SHORT, ratios=("2", "3"), max_events=2):
            if sum(1 for x in l if x[0] in "XU") == 2:
                items.append((l, BASES[0]))
    # two securities: a split of one never touches the other
    a3 = list(sk.bs_family(3, 3, SHORT, need_sell=True))
    for l in sk.with_events(a3, ("X", "U"), [1, 30], ratios=("2",), max_events=1, tickers=("B",)):
        items.append((l, BASES[0]))
    b2s = list(sk.bs_family(2, 3, [0, 30], tickers=("A", "B"), need_sell=True))
    for l in sk.with_events(b2s, ("X",), [0, 1, 30], ratios=("2",), max_events=1, tickers=("B",)):
        items.append((l, BASES[0]))
    sks = _number("t", _dedup(items + bnb_split_event_family() + two_event_window_family()), variant="twin")
    noop = []
    for l in sk.bs_family(1, nb, SHORT, need_sell=False):
        for d in SHORT:
            for r in ("2", "3"):
                noop.append((sk.canon_order([list(x) for x in l] + [["X", "A", d, r], ["U", "A", d, r]]), BASES[0]))
    sks += _number("n", _dedup(noop), variant="noop")
    return sks


def fam_c11(tier, seed):
    nb = 3 if tier == "quick" else 4
    base = list(sk.bs_family(1, nb, SHORT, need_sell=False))
    items = []
    for l in sk.with_events(base, ("C", "M", "D"), SHORT, max_events=1):
        items.append((l, BASES[0]))
    b2 = list(sk.bs_family(1, 2 if tier == "quick" else 3, SHORT, need_sell=False))
    for l in sk.with_events(b2, ("C", "M"), SHORT, max_events=2):
        if sum(1 for x in l if x[0] in "CM") == 2:
            items.append((l, BASES[0]))
    # an event of one security next to trades of another
    b2s = list(sk.bs_family(2, 3, [0, 30], tickers=("A", "B"), need_sell=False))
    for l in sk.with_events(b2s, ("C", "M"), [0, 1, 30], max_events=1, tickers=("B",)):
        items.append((l, BASES[0]))
    # several capital events landing on two lots of different cost, one of them identified by the 30-day / same-day rule
    for evs in ([["C", "A", 31], ["C", "A", 61]], [["C", "A", 31], ["C", "A", 32]], [["M", "A", 31], ["C", "A", 61]], [["C", "A", 31], ["M", "A", 32], ["C", "A", 61]]):
        items.append(([["B", "A", 0], ["S", "A", 1], ["B", "A", 30]] + evs, BASES[0]))
        items.append(([["B", "A", 0], ["B", "A", 30], ["S", "A", 30]] + evs, BASES[0]))
    items = _dedup(items + bnb_split_event_family())
    sks = _number("e", items, variant="events")
    canc = [it for it in items if any(x[0] == "C" for x in it[0]) and not any(x[0] == "M" for x in it[0])]
    sks += _number("k", canc, variant="cancel")
    rep = [it for it in items if len(it[0]) <= 3 and any(x[0] == "D" for x in it[0])]
    sks += _number("r", rep, variant="events", level="report")
    return sks


def fam_c12(tier, seed):
    npre = 3 if tier == "quick" else 4
    items = []
    for l in sk.bs_family(1, npre, SHORT, need_sell=True):
        last = max(x[2] for x in l)
        for gap in (31, 32, 61, 400):
            for k in ("B", "S", "X", "U", "D"):
                suffix = [k, "A", last + gap] + (["2"] if k in "XU" else [])
                items.append((l + [suffix], len(l)))
        if tier == "thorough" and len(l) <= 3:
            for k1 in ("B", "S"):
                for k2 in ("B", "S", "X"):
                    s1 = [k1, "A", last + 31]
                    s2 = [k2, "A", last + 32] + (["2"] if k2 == "X" else [])
                    items.append((l + [s1, s2], len(l)))
    # prefixes with a split
    b2 = list(sk.bs_family(2, 2 if tier == "quick" else 3, SHORT, need_sell=True))
    for l in sk.with_events(b2, ("X",), SHORT, ratios=("2",), max_events=1):
        last = max(x[2] for x in l)
        for k in ("B", "S"):
            items.append((l + [[k, "A", last + 31]], len(l)))
    # prefixes in which a capital return / accumulation has been attached to a lot that is later used up completely (the solver
    # chooses the quantities), continued by a split, unsplit or purchase: the earlier figures must not move
    for ev in ("C", "M"):
        for pre in ([["B", "A", 0], [ev, "A", 1], ["B", "A", 30], ["S", "A", 31]], [["B", "A", 0], [ev, "A", 1], ["S", "A", 30]]):
            for suf in (["X", "A", 62, "2"], ["U", "A", 62, "2"], ["B", "A", 62], ["X", "A", 431, "2"]):
                items.append((pre + [suf], len(pre)))
    sks = []
    # a long ledger kept security by security (each block chronological, the file as a whole not): 32 + 1 lines and 36 + 1 lines.
    # Same-day BUY / SELL / BUY lines within 30 days after a SELL make the order of same-day lines matter for cost, so the
    # date sort has to keep it (prices symbolic, quantities concrete: no path explosion)
    for extra in (0, 4):
        long = [["B", "A", 0], ["S", "A", 50], ["B", "A", 60], ["S", "A", 60], ["B", "A", 60]]
        long += [["B", "B", -700 + 30 * k] for k in range(20 + extra)] + [["B", "C", -400 + 30 * k] for k in range(7)]
        long.append(["S", "B", 130])
        sks.append(mk(len(sks), "L", long, base="2023-01-10", wit=1, prefix=len(long) - 1, mode="P"))
        sks.append(mk(len(sks), "L", long, base="2023-01-10", wit=1, prefix=len(long) - 1, mode="P", level="report"))
    for i, (l, n) in enumerate(items):
        sks.append(mk(i, "m", l, wit=WIT, prefix=n))
    # the same continuations just outside the window when the 30 days straddle the end of a normal year and of a leap year
    k = 0
    for l, n in items:
        if len(l) == n + 1 and l[-1][0] in ("B", "S") and l[-1][2] - max(x[2] for x in l[:n]) in (31, 32) and max(x[2] for x in l[:n]) <= 1:
            for b in BASES[3:]:
                sks.append(mk(k, "e", l, wit=WIT, prefix=n, base=b)); k += 1
    j = 0
    for l, n in items:
        if n <= 2 and len(l) == n + 1:
            sks.append(mk(j, "r", l, wit=WIT, prefix=n, level="report"))
            j += 1
    return sks


def bounds_rel(text):
    return lambda tier: text[0] if tier == "quick" else text[1]


SPECS.update({
    "C06": dict(id="C06", families=fam_c06, entry_points=REPORT_ENTRY + ["cgt_core::dsl::transaction_to_dsl", "cgt_core::parser::parse_file", "cgt-cli main.rs read_and_concatenate_files (source-extracted at build time)"],
                bounds=bounds_rel((
                    "all permutations of every B/S ledger with 2..3 lines (and every 4-line ledger with two lines on one day) on {0,1,30,31}, of two-security ledgers with 2..3 lines (4 lines with a same-day pair), of ledgers with a split on a trading day; every BUY/SELL of ledgers up to 3 lines broken into two fills (adjacent and separated); ledgers up to 3 lines cut into two files at every boundary with 4 first-file endings; all numeric fields (and the fill weights) symbolic",
                    "as quick with 5-line ledgers (generators of the symmetric group for 5 lines), two securities up to 4 lines, fills up to 4 lines")),
                assumptions=COMMON_ASSUME + ["the two-file input is produced by the real DSL writer; arbitrary lexical layouts are C13's subject"], outside=OUTSIDE + ["more than two input files", "fills of one trade on more than two lines"]),
    "C09": dict(id="C09", families=fam_c09, chunk=2, entry_points=REPORT_ENTRY + ["cgt_core::parser::parse_file (ticker case)", "serde Deserialize for Transaction (ticker case)"],
                bounds=bounds_rel((
                    "every two-security B/S ledger with 2..4 lines on {0,1,30} (plus one split/capital-return/accumulation line for 2..3 trade lines), every interleaving of the two securities' lines within each day; the whole ledger against each security alone; report level for <= 3 lines; all numeric fields symbolic",
                    "as quick with 2..5 lines on {0,1,30,31}")),
                assumptions=COMMON_ASSUME, outside=OUTSIDE + ["more than two securities", "non-ASCII tickers (rejected by the grammar)"]),
    "C10": dict(id="C10", families=fam_c10, entry_points=MATCHER_ENTRY,
                bounds=bounds_rel((
                    "every B/S ledger with 1..3 lines on {0,1,30,31} plus one SPLIT or UNSPLIT (ratio 2, 3, 5/2) at every palette day, against its twin in post-split units; splits next to a CAPRETURN/ACCUMULATION; a split of another security; SPLIT r + UNSPLIT r on one day (r = 2, 3) against the ledger without them; all other numeric fields symbolic",
                    "as quick with 1..4 trade lines, a symbolic ratio r > 0, and two splits for 2..3 trade lines")),
                assumptions=COMMON_ASSUME + ["a day's SPLIT/UNSPLIT takes effect after that day's trades (the reading of the tool's main pass); the twin rescales lines dated up to and including the split day"], outside=OUTSIDE),
    "C11": dict(id="C11", families=fam_c11, entry_points=REPORT_ENTRY,
                bounds=bounds_rel((
                    "every B/S ledger with 1..3 lines on {0,1,30,31} plus one CAPRETURN / ACCUMULATION / DIVIDEND at every palette day, 1..2 trade lines plus two capital events, an event of another security; with/without each event line; CAPRETURN paired with an equal ACCUMULATION; all amounts, fees and tax symbolic (net return >= 0)",
                    "as quick with 1..4 trade lines and two events for up to 3 trade lines")),
                assumptions=COMMON_ASSUME + ["disposals dated before an event may be restated by it (the tool attaches the adjustment to acquisition lots; pinned by the AssetEventsNotFullSale goldens) - not demanded otherwise"], outside=OUTSIDE),
    "C12": dict(id="C12", families=fam_c12, entry_points=REPORT_ENTRY,
                bounds=bounds_rel((
                    "prefix: every B/S ledger with 1..3 lines on {0,1,30,31} (and 2-line ledgers with a split); suffix: one BUY/SELL/SPLIT/UNSPLIT/DIVIDEND line dated 31, 32, 61 or 400 days after the prefix's last line; report level for prefixes of <= 2 lines; all numeric fields symbolic",
                    "as quick with prefixes of 1..4 lines and two-line suffixes")),
                assumptions=COMMON_ASSUME, outside=OUTSIDE + ["CAPRETURN/ACCUMULATION continuations (excluded by the property)"]),
})
for _p in ("C06", "C09", "C10", "C11", "C12"):
    SPECS[_p].setdefault("outcome_free", False)


# ---------------------------------------------------------------------------------------------- report level
def fam_c04(tier, seed):
    items = []
    n = 3 if tier == "quick" else 4
    # one security; base 2024-03-07 puts offsets 30/31 on 6/7 April (next tax year), 0/1 before it
    for base in (BASES[0], BASES[2]):
        for l in sk.bs_family(2, n, SHORT, need_sell=True):
            if len({x[2] for x in l if x[0] == "S"}) <= 2:
                items.append((l, base))
    # dividends
    b2 = list(sk.bs_family(2, 2 if tier == "quick" else 3, [0, 30], need_sell=True))
    for l in sk.with_events(b2, ("D",), [0, 1, 30, 31], max_events=2):
        items.append((l, BASES[2]))
    # two securities sold on one day
    for l in sk.bs_family(4, 4, [0, 30], tickers=("A", "B"), need_sell=True):
        if sum(1 for x in l if x[0] == "S") == 2 and [x[0] for x in l[:2]] == ["B", "B"] and len({x[1] for x in l if x[0] == "B"}) == 2:
            items.append((l, BASES[2]))
    # several SELL lines of one security on one day separated by another security's line (non-canonical order)
    items.append(([["B", "A", 0], ["B", "B", 0], ["S", "A", 30], ["S", "B", 30], ["S", "A", 30]], BASES[2]))
    items.append(([["B", "A", 0], ["B", "B", 0], ["S", "A", 1], ["S", "B", 1], ["S", "A", 1], ["S", "B", 31]], BASES[2]))
    items = _dedup(items)
    sks = []
    i = 0
    for l, b in items:
        sks.append(mk(i, "a", l, base=b, wit=WIT)); i += 1
    for l, b in items:
        if b == BASES[2] and len(l) <= 3:
            for y in (2023, 2024):
                sks.append(mk(i, "y", l, base=b, wit=WIT, year=y)); i += 1
            sks.append(mk(i, "x", l, base=b, wit=WIT, variant="missing")); i += 1
    # exemption table loaded the way the CLI does: embedded table plus override files (./config.toml, ~/.config/cgt-tool/config.toml)
    # that replace embedded years (2023, 2024) or add one (2026); amounts in the files are symbolic
    led = [["B", "A", 0], ["S", "A", 1], ["S", "A", 31]]
    for ov in (dict(cwd_ov=[2023]), dict(home_ov=[2023]), dict(cwd_ov=[2023, 2024]), dict(cwd_ov=[2024], home_ov=[2023]),
               dict(cwd_ov=[2026]), dict(home_ov=[2026]), dict(cwd_ov=[2023, 2026]), dict(cwd_ov=[2026], home_ov=[2024]), dict()):
        sks.append(mk(i, "o", led, base=BASES[2], wit=1, variant="override", **ov)); i += 1
        sks.append(mk(i, "o", led[:2], base="2026-06-01", wit=1, variant="override", **ov)); i += 1
    return sks


def fam_c07(tier, seed):
    bases = ["2023-04-05", "2024-04-05", "1900-04-05", "1901-04-05", "2100-04-05", "2101-04-05", "2024-12-31", "2020-02-29"]
    shapes = [
        [["B", "A", -1], ["S", "A", 0]],
        [["B", "A", -1], ["S", "A", 1]],
        [["B", "A", -1], ["S", "A", 0], ["S", "A", 1]],
        [["B", "A", -1], ["S", "A", 0], ["B", "A", 1], ["S", "A", 1]],
        [["B", "A", -1], ["D", "A", 0], ["S", "A", 0], ["D", "A", 1], ["S", "A", 1]],
        [["B", "A", -400], ["S", "A", -365], ["S", "A", 0], ["S", "A", 1]],
        [["B", "A", -1], ["B", "B", -1], ["S", "B", 0], ["S", "A", 1]],
    ]
    if tier == "thorough":
        shapes += [[["B", "A", -40], ["S", "A", -29], ["B", "A", 0], ["S", "A", 1], ["B", "A", 2]],
                   [["B", "A", -1], ["S", "A", 0], ["S", "A", 1], ["S", "A", 366], ["S", "A", 367]]]
    sks = []
    i = 0
    for b in bases:
        for sh in shapes:
            sks.append(mk(i, "b", sh, base=b, wit=3)); i += 1
    # the MCP tool explain_matching derives the tax year of the disposal date itself: executed (handlers compiled from the current
    # source of crates/cgt-mcp) for every disposal of these ledgers, plus calculate_report per year
    from . import symx as _symx
    if _symx.MCP_OK:
        for s0 in list(sks):
            sks.append(dict(s0, id=f"m{i}", opts=dict(s0["opts"], variant="mcp"))); i += 1
    return sks


SPECS.update({
    "C04": dict(id="C04", families=fam_c04, entry_points=REPORT_ENTRY + ["cgt_core::models::TaxYearSummary::{disposal_count,gross_proceeds,taxable_gain}", "cgt_core::models::Disposal::{net_gain_or_loss,total_allowable_cost}"],
                bounds=bounds_rel((
                    "every B/S ledger of one security with 2..3 lines and <= 2 disposal days on {0,1,30,31} from 2024-01-10 and 2024-03-07 (offsets 30/31 = 6/7 April: two tax years), 2 trade lines plus 1..2 DIVIDEND lines, two securities sold on one day; all-years report, year filters 2023 and 2024, and an exemption table lacking a year with disposals; every quantity, price, fee, dividend, tax and each year's exempt amount symbolic",
                    "as quick with 2..4 lines")),
                assumptions=COMMON_ASSUME + ["the round_dp(10) normalisation of proceeds is over-approximated by a value within 5e-11 (identities asserted to that tolerance)", "Config is built directly (public field) with a symbolic exempt amount per year"],
                outside=OUTSIDE + ["Config::load_with_overrides file I/O", "plain/PDF/WASM re-computations (plain: C17)"]),
    "C07": dict(id="C07", families=fam_c07, harness_prop="C07", entry_points=REPORT_ENTRY + ["cgt_core::models::TaxPeriod::{from_date,new,start_year,end_date}"],
                bounds=bounds_rel((
                    "7 ledger shapes with disposals on 5 and 6 April (and a year earlier/later) at 8 calendar positions (2023, 2024 leap, 1900, 1901, 2100, 2101, 31 Dec, 29 Feb), all numeric fields and exempt amounts symbolic; every year filter from the year before the first line to the year after the last; all dates for the date kernels are decided separately by KANI and SRCX (same check)",
                    "as quick with 9 shapes")),
                assumptions=COMMON_ASSUME, outside=OUTSIDE + ["CLI --year argument parsing"]),
})


from . import c07extra  # noqa: E402

SPECS["C07"]["extra_engines"] = [c07extra.kani_dates, c07extra.srcx_dates]


# ---------------------------------------------------------------------------------------------- text level
def iso_codes():
    import glob
    f = glob.glob("/root/.cargo/registry/src/*/iso_currency-*/isodata.tsv")
    codes = []
    if f:
        for i, line in enumerate(open(sorted(f)[-1], encoding="utf-8")):
            if i == 0:
                continue
            c = line.split("\t")[0].strip()
            if len(c) == 3 and c.isalpha():
                codes.append(c)
    return codes or ["GBP", "USD", "EUR", "JPY"]


KIND_SLOTS = {"B": 2, "S": 2, "D": 2, "M": 2, "C": 2, "X": 0, "U": 0}


def one_line(kind, ticker="A", day=0, c1="GBP", c2="GBP", ratio="sym"):
    l = [kind, ticker, day, ratio if kind in "XU" else None, None, c1, c2]
    return l


def fam_c14(tier, seed):
    sks = []
    i = 0
    tick = ["A", "BUY", "SELL", "TAX1", "0A", "GBP", "TOTAL", "RATIO", "FEES", "X9Z"]
    curs = ["GBP", "USD", "EUR", "JPY"]
    # every kind x ticker palette x currency pairs (both amounts symbolic; zero / non-zero optional clause chosen by the solver)
    for k in "BSDMCXU":
        for t in tick:
            for c1 in (curs if KIND_SLOTS[k] else ["GBP"]):
                for c2 in (curs if KIND_SLOTS[k] else ["GBP"]):
                    sks.append(mk(i, "k", [one_line(k, t, 0, c1, c2)], wit=2)); i += 1
    # calendar positions where week-based and calendar years differ, a leap day, year ends
    for b in ("2024-12-30", "2024-12-31", "2021-01-01", "2022-01-02", "2023-01-01", "2020-02-29", "2019-12-31", "2026-01-01"):
        for k in "BSDMCXU":
            sks.append(mk(i, "y", [one_line(k, "A", 0, "USD" if KIND_SLOTS[k] else "GBP", "GBP")], base=b, wit=2)); i += 1
    # every ISO-4217 code known to iso_currency on every amount slot
    codes = iso_codes()
    for k in "BSDMC":
        for c in codes:
            sks.append(mk(i, "c", [one_line(k, "A", 0, c, "GBP")], wit=0)); i += 1
            sks.append(mk(i, "c", [one_line(k, "A", 0, "GBP", c)], wit=0)); i += 1
    # lists of 2-3 transactions, and the report of the three renderings (GBP ledgers)
    for l in sk.bs_family(2, 3, [0, 30], need_sell=True):
        sks.append(mk(i, "r", l, wit=WIT, calc=1)); i += 1
    b2 = list(sk.bs_family(2, 2, [0, 30], need_sell=True))
    for l in sk.with_events(b2, ("X", "U", "C", "M", "D"), [0, 1], ratios=("sym",), max_events=1):
        sks.append(mk(i, "r", l, wit=WIT, calc=1)); i += 1
    if tier == "thorough":
        for l in sk.bs_family(2, 3, [0, 30], tickers=("A", "B"), need_sell=True):
            sks.append(mk(i, "r", l, wit=WIT, calc=1)); i += 1
    # the MCP tools parse_transactions (DSL and JSON input) and convert_to_dsl on the single-line and list skeletons
    from . import symx as _symx
    if _symx.MCP_OK:
        for s0 in list(sks):
            if s0["id"][0] in "kyr" and (s0["id"][0] != "k" or tier == "thorough" or s0["lines"][0][1] in ("A", "BUY", "TAX1", "0A")):
                sks.append(dict(s0, id=f"m{i}", opts=dict(s0["opts"], variant="mcp"))); i += 1
    return sks


def fam_c15(tier, seed):
    sks = []
    i = 0
    # validator: one transaction of each kind, and pairs (per-line independence)
    for k in "BSDMCXU":
        sks.append(mk(i, "v", [one_line(k)], variant="validator", mode="QPFRH", wit=2)); i += 1
    for k1 in "BSDMCXU":
        for k2 in "BSCX":
            sks.append(mk(i, "v", [one_line(k1), one_line(k2, day=1)], variant="validator", mode="QPFRH", wit=5)); i += 1
    # panic freedom on hostile numbers. Sign-free inputs make every comparison of the code two-sided, so the hostility
    # is graded: 1 line - every field sign-free; 2 lines - quantities/ratios sign-free, money >= 0; 3 lines - quantities only
    for l in sk.bs_family(1, 1, [0, 30], need_sell=False):
        sks.append(mk(i, "p", l, variant="panic", mode="QPFH", wit=WIT)); i += 1
    for k in "XUCMD":
        sks.append(mk(i, "p", [one_line(k)], variant="panic", mode="QPFRH", wit=WIT)); i += 1
    for l in sk.bs_family(2, 2, [0, 1, 30], need_sell=False):
        sks.append(mk(i, "p", l, variant="panic", mode="QPFZ", wit=WIT)); i += 1
    b1 = list(sk.bs_family(1, 1, [0, 30], need_sell=False))
    for l in sk.with_events(b1, ("X", "U", "C", "M", "D"), [0, 1, 30], ratios=("sym",), max_events=1):
        sks.append(mk(i, "p", l, variant="panic", mode="QPFZ", wit=WIT)); i += 1
    # ... and the MCP tool handlers on the same 1- and 2-line hostile ledgers (DSL text and JSON array input)
    from . import symx as _symx
    if _symx.MCP_OK:
        for s0 in list(sks):
            if s0["opts"].get("variant") == "panic":
                sks.append(dict(s0, id=f"g{i}", opts=dict(s0["opts"], mcp=1))); i += 1
    n3 = 3 if tier == "quick" else 4
    for l in sk.bs_family(3, n3, [0, 30], need_sell=True):
        sks.append(mk(i, "q", l, variant="panic", mode="QZ", wit=WIT)); i += 1
    if tier == "thorough":
        for l in sk.bs_family(2, 2, [0, 1, 30], need_sell=False):
            sks.append(mk(i, "p", l, variant="panic", mode="QPFH", wit=WIT)); i += 1
    # the Schwab converter on hostile field spellings (concrete samples)
    dates = ["04/25/2023", "04/25/2023 as of 04/24/2023", "04/25/2023 as of", "as of", "as of 04/25/2023", " as of ", "04/25/2023 as of\u00a004/24/2023", "as of\u00a0", "13/45/2023", "04/25/23", "",
             "04/25/2023 as of 04/24/2023 as of 01/01/2020", "é", "04/25/2023\u00a0as of 04/24/2023", "02/30/2024", "99999999999/1/1"]
    amounts = ["$1", "-$1,000.50", "$", "-", "--", "1e5", "$1.2.3", ",", "$9999999999999999999999999999999999", "０", " ", "1_0", "+5", "$-5"]
    for a in ("Buy", "Cash Dividend", "Stock Plan Activity", "NRA Tax Adj", "Mystery"):
        for d in dates:
            r = {"Date": d.encode().decode("unicode_escape") if "\\u" in d else d, "Action": a, "Symbol": "A", "Description": "x", "Quantity": "1", "Price": "$2", "Fees & Comm": "", "Amount": "$3"}
            sks.append({"id": f"x{i}", "base": BASES[0], "lines": [], "opts": {"variant": "convert", "row": r, "wit": 0}}); i += 1
    for a in ("Buy", "Cash Dividend"):
        for am in amounts:
            r = {"Date": "04/25/2023", "Action": a, "Symbol": "A", "Description": "x", "Quantity": am, "Price": am, "Fees & Comm": am, "Amount": am}
            sks.append({"id": f"x{i}", "base": BASES[0], "lines": [], "opts": {"variant": "convert", "row": r, "wit": 0}}); i += 1
    # magnitudes up to the top of the decimal range (valid signs, unbounded size, overflow condition modelled)
    for l in sk.bs_family(1, 1, [0, 30], need_sell=False):
        sks.append(mk(i, "h", l, variant="huge", mode="QPF", wit=0)); i += 1
    for l in ([["B", "A", 0], ["S", "A", 30]], [["B", "A", 0], ["S", "A", 0]]):
        sks.append(mk(i, "h", l, variant="huge", mode="QPF", wit=0)); i += 1
    return sks


def fam_c17(tier, seed):
    sks = []
    i = 0
    n = 3 if tier == "quick" else 4
    for base in (BASES[0], BASES[2]):
        for l in sk.bs_family(2, n, [0, 1, 30, 31] if base == BASES[2] else [0, 30], need_sell=True):
            if len({x[2] for x in l if x[0] == "S"}) <= (1 if len(l) >= 3 and tier == "quick" else 2):
                sks.append(mk(i, "t", l, base=base, wit=WIT, mode="PF")); i += 1
    b2 = list(sk.bs_family(2, 2, [0, 30], need_sell=True))
    for l in sk.with_events(b2, ("D", "X", "C", "M", "U"), [0, 1], ratios=("2",), max_events=1):
        sks.append(mk(i, "t", l, base=BASES[2], wit=WIT, mode="PF")); i += 1
    # tax-year labels whose two-digit end needs its leading zero or wraps the century (2008/09, 1999/00, 2099/00, 1900/01, 2100/01)
    for base in ("2008-06-01", "1999-06-01", "2099-06-01", "1900-06-01", "2100-03-20", "2009-03-07"):
        sks.append(mk(i, "y", [["B", "A", 0], ["S", "A", 1]] + ([["S", "A", 31]] if base == "2009-03-07" else []), base=base, wit=WIT, mode="PF")); i += 1
    # event amounts in a foreign currency are echoed in that currency (USD: 2 minor units, JPY: 0)
    for cur in ("USD", "JPY", "EUR"):
        for k in "DCM":
            l = [fx_line("B", 0, "GBP", "GBP"), fx_line(k, 1, cur, "GBP"), fx_line("S", 30, "GBP", "GBP")]
            sks.append(mk(i, "e", l, base=BASES[2], wit=WIT, mode="PF")); i += 1
        sks.append(mk(i, "e", [fx_line("B", 0, cur, "GBP"), fx_line("S", 30, "GBP", cur)], base=BASES[2], wit=WIT, mode="PF")); i += 1
    # quantities with many decimals (fractional shares): every front-end must show them exactly
    for s0 in list(sks):
        if s0["id"][0] == "t" and s0["base"] == BASES[0] and len(s0["lines"]) <= 3:
            sks.append(dict(s0, id=f"f{i}", opts=dict(s0["opts"], fracq=1))); i += 1
    # the MCP tools (calculate_report all years and per year, explain_matching per disposal) on the same ledgers, fed as a
    # JSON array and as DSL text; handlers compiled from the current source of crates/cgt-mcp (skipped if that fails)
    from . import symx as _symx
    if _symx.MCP_OK:
        for s0 in list(sks):
            if s0["id"][0] in "tef" and (tier == "thorough" or len(s0["lines"]) <= 3):
                for inp in ("json", "dsl"):
                    o = dict(s0["opts"], variant="mcp", input=inp)
                    sks.append(dict(s0, id=f"m{i}", opts=o)); i += 1
                # quantities symbolic as well: a sale larger than the repurchase gives disposals of several legs
                if s0["id"][0] == "t" and len(s0["lines"]) == 3 and s0["base"] == BASES[0]:
                    sks.append(dict(s0, id=f"m{i}", opts=dict(s0["opts"], variant="mcp", input="json", mode="QPF"))); i += 1
    return sks


SPECS.update({
    "C14": dict(id="C14", families=fam_c14, entry_points=["cgt_core::dsl::{transactions_to_dsl,transaction_to_dsl,format_amount}", "cgt_core::parser::parse_file (pest grammar + pest_consume node matching)", "serde Serialize/Deserialize for Transaction, Operation, CurrencyAmount (cgt-money amount.rs)", "cgt_core::calculator::calculate (three renderings)"],
                bounds=bounds_rel((
                    "one transaction of each of the 7 kinds x 10 tickers (incl. keyword-like BUY, SELL, TOTAL, RATIO, FEES, TAX1, 0A, GBP) x 4x4 currency pairs; every ISO-4217 code of iso_currency on each amount slot of the 5 money-carrying kinds; lists of 2..3 transactions (B/S on {0,30}, plus one event line) whose three renderings are also run through calculate; every quantity, amount and ratio a real-valued symbol, zero/non-zero optional clause chosen by the solver",
                    "as quick plus two-security lists")),
                assumptions=["symbolic decimals travel through text as reserved all-digit literals that the shim's Display/FromStr map to and from their terms (precision-aware)", "numeric inputs: quantity > 0, amounts >= 0, ratio > 0"],
                outside=["that rust_decimal's own to_string/from_str round-trip every 96-bit mantissa and scale (a property of the dependency)", "MCP transport and routing (the parse_transactions / convert_to_dsl handlers are executed on the single-line and list skeletons)", "dates other than the palette"]),
    "C15": dict(id="C15", families=fam_c15, panic_is_subject=True, env={"SYMX_MAX_LEAVES": "600"}, entry_points=["cgt_core::validation::validate", "cgt_core::calculator::calculate (all years and year filter)", "cgt_core::dsl::transactions_to_dsl", "cgt_formatter_plain::format", "serde_json::to_string(&TaxReport)"],
                bounds=bounds_rel((
                    "validator: one transaction of each kind and all pairs (7 x 4), every numeric field an unconstrained real (any sign, zero); panic freedom: every B/S ledger with 1..3 lines on {0,1,30} and 1..2 trade lines plus one event line, every numeric field unconstrained in sign with magnitude <= 1e9; 'huge' family: 1..2 lines, magnitudes unbounded with the 2^96 overflow condition of the decimal type modelled",
                    "as quick with 1..4 lines")),
                assumptions=["a feasible zero divisor and (huge family) a result reaching 2^96 are modelled as the panics the real rust_decimal raises; other arithmetic is exact"],
                outside=["arbitrary byte strings through the pest parser", "CLI exit status / stdout / --output / default-PDF overwrite (process and file-system effects)", "hangs", "MCP transport / routing / concurrency (the tool handlers themselves are executed on the 1- and 2-line hostile ledgers)"]),
    "C17": dict(id="C17", families=fam_c17, entry_points=["serde Serialize for TaxReport / TaxYearSummary / Disposal / Match / Section104Holding (decimal_money)", "cgt_formatter_plain::format (format_disposal)", "cgt_format::{format_gbp,format_decimal_trimmed,format_price,format_date,format_tax_year,round_gbp}", "cgt_core::calculator::calculate"],
                bounds=bounds_rel((
                    "every B/S ledger of one security with 2..3 lines (<= 1 disposal day for 3 lines) on {0,30} from 2024-01-10 and on {0,1,30,31} from 2024-03-07 (two tax years), 2 trade lines plus one DIVIDEND / SPLIT / CAPRETURN line; all numeric fields symbolic, so half-penny midpoints and negative results are reachable; every monetary token of the JSON and of the plain text mapped back to its term; the same ledgers with fractional concrete quantities (6 decimals); the MCP tools calculate_report / explain_matching on the <= 3-line ledgers fed as JSON array and as DSL text (DSL variant: fees and tax assumed non-zero)",
                    "as quick with 2..4 lines and <= 2 disposal days")),
                assumptions=["figures in text are located by the line formats of cgt-formatter-plain; a figure whose separators or sign are misplaced fails to map back and is reported", "exempt amounts are the embedded table's constants"],
                outside=["PDF (Decimal -> f64 -> Typst)", "MCP: stdio transport, request routing, concurrency (the calculate_report / explain_matching handlers themselves are executed)", "digit grouping for magnitudes the solver does not choose (the grouping code runs on the literal)"]),
})


from . import c17extra  # noqa: E402

SPECS["C17"]["extra_engines"] = [c17extra.kani_round]


# ---------------------------------------------------------------------------------------------- FX
def fx_line(kind, day, c1, c2, ticker="A"):
    return [kind, ticker, day, None, None, c1, c2]


def fam_c08(tier, seed):
    """base 2024-01-20: day 0 = 20 Jan 2024, day 20 = 9 Feb 2024, day 350 = 4 Jan 2025 (same month, another year)"""
    base = "2024-01-20"
    sks = []
    i = 0
    curs = ["USD", "EUR", "JPY"]
    ledgers = []
    # price and fees in different currencies, two months, two years
    for c1 in ["GBP"] + curs:
        for c2 in ["GBP"] + curs:
            if c1 == c2 == "GBP":
                continue
            ledgers.append([fx_line("B", 0, c1, c2), fx_line("S", 20, c2, c1)])
    ledgers.append([fx_line("B", 0, "USD", "EUR"), fx_line("S", 350, "USD", "EUR")])
    ledgers.append([fx_line("B", 0, "USD", "USD"), fx_line("D", 20, "EUR", "USD"), fx_line("S", 350, "JPY", "GBP")])
    ledgers.append([fx_line("B", 0, "USD", "GBP"), fx_line("C", 20, "EUR", "USD"), fx_line("S", 40, "USD", "USD")])
    ledgers.append([fx_line("B", 0, "EUR", "USD"), fx_line("M", 20, "USD", "EUR"), fx_line("S", 40, "GBP", "JPY")])
    ledgers.append([fx_line("B", 0, "USD", "EUR"), fx_line("B", 20, "EUR", "USD"), fx_line("S", 40, "USD", "USD")])
    ov_sets = [
        [],
        [{"year": 2024, "month": 1, "rates": [["USD", "sym"]], "modified": 100}],
        [{"year": 2024, "month": 2, "rates": [["USD", "sym"], ["EUR", "sym"]], "modified": 100}],
        # two files for the same month: the later modification time wins, whatever the order they are listed in
        [{"year": 2024, "month": 1, "name": "a_2024-01.xml", "rates": [["USD", "sym"]], "modified": 200},
         {"year": 2024, "month": 1, "name": "b_2024-01.xml", "rates": [["USD", "sym"], ["EUR", "sym"]], "modified": 100}],
        [{"year": 2024, "month": 1, "name": "a_2024-01.xml", "rates": [["USD", "sym"]]},
         {"year": 2024, "month": 1, "name": "b_2024-01.xml", "rates": [["USD", "sym"]], "modified": 100}],
        # a month beyond the bundled table
        [{"year": 2031, "month": 3, "rates": [["USD", "sym"]], "modified": 100}],
    ]
    for l in ledgers:
        for ov in (ov_sets if tier == "thorough" else ov_sets[:5]):
            sks.append(mk(i, "l", l, base=base, wit=WIT, overrides=ov)); i += 1
    # missing rates: a month beyond the bundled table, with and without an override for it; an override for another currency only
    far = "2031-03-10"
    for ov in ([], [{"year": 2031, "month": 3, "rates": [["USD", "sym"]], "modified": 1}], [{"year": 2031, "month": 3, "rates": [["EUR", "sym"]], "modified": 1}],
               [{"year": 2031, "month": 4, "rates": [["USD", "sym"]], "modified": 1}], [{"year": 2030, "month": 3, "rates": [["USD", "sym"]], "modified": 1}]):
        for l in ([fx_line("B", 0, "USD", "GBP"), fx_line("S", 1, "USD", "USD")], [fx_line("B", 0, "GBP", "USD")], [fx_line("B", 0, "GBP", "GBP"), fx_line("D", 1, "GBP", "USD")]):
            sks.append(mk(i, "m", l, base=far, wit=WIT, overrides=ov)); i += 1
    # malformed files: period disagreeing with the file name, rate of free sign
    for l in ledgers[:2]:
        sks.append(mk(i, "x", l, base=base, wit=WIT, overrides=[{"year": 2024, "month": 1, "period_month": 2, "rates": [["USD", "sym"]], "modified": 1}])); i += 1
        sks.append(mk(i, "x", l, base=base, wit=WIT, overrides=[{"year": 2024, "month": 1, "rates": [["USD", "free"]], "modified": 1}])); i += 1
        sks.append(mk(i, "x", l, base=base, wit=WIT, overrides=[{"year": 2024, "month": 1, "rates": [["USD", "sym"], ["USD", "free"]], "modified": 1}])); i += 1
        sks.append(mk(i, "x", l, base=base, wit=WIT, overrides=[{"year": 2024, "month": 1, "rates": [["EUR", "sym"], ["USD", "free"], ["JPY", "sym"]], "modified": 1}])); i += 1
    # through the CLI's read_fx_folder
    sks.append(mk(i, "f", ledgers[0], base=base, wit=WIT, folder=1, overrides=[{"year": 2024, "month": 1, "rates": [["USD", "sym"]]}, {"year": 2031, "month": 3, "rates": [["EUR", "sym"]]}])); i += 1
    return sks


SPECS["C08"] = dict(
    id="C08", families=fam_c08, entry_points=["cgt_money::load_cache_with_overrides / load_cache_with_folder_files (load_bundled_dir, expected_year_month_from_path)", "cgt_money::parser::parse_monthly_rates (quick_xml, parse_period)", "cgt_money::FxCache::{extend,insert,get}", "cgt_money::CurrencyAmount::to_gbp", "cgt_core::models::{transactions_to_gbp, Operation::to_gbp, amount_to_gbp}", "cgt_core::calculator::calculate", "cgt-cli main.rs read_fx_folder (source-extracted at build time)"],
    bounds=bounds_rel((
        "20 ledgers of 2..3 lines (BUY/SELL/DIVIDEND/CAPRETURN/ACCUMULATION) whose price/total and fees/tax carry every pair of {GBP, USD, EUR, JPY}, dated in Jan 2024, Feb 2024 and Jan 2025, x 5 rate-folder configurations (none; overriding one month; two files for one month in both modification-time orders; missing modification time) with symbolic rates; months beyond the bundled table with/without matching overrides; malformed files (period != file name; a rate of free sign, also as a repeated row of one currency); one configuration read through the CLI's own read_fx_folder; all amounts and rates symbolic",
        "as quick plus a month beyond the bundled table for every ledger")),
    assumptions=["the expected rate of a key not overridden is read from the bundled XML file on disk by a plain text scan (independent of quick_xml and FxCache)", "amounts: quantity > 0, money >= 0, override rates > 0 unless the configuration leaves the sign free"],
    outside=["directory reading and mtime retrieval beyond the source-extracted read_fx_folder on one scratch directory", "currencies other than USD/EUR/JPY (all share one code path keyed by iso_currency::Currency)", "MCP get_fx_rate"])


# ---------------------------------------------------------------------------------------------- converter
def row(action, sym="A", day=0, spelling="dollar", listed=None, desc=None, same=None, nofee=False, negfee=False):
    return [action, sym, day, spelling, listed, desc, same, nofee, negfee]


def conv(i, pid, rows, base="2024-01-10", awards=None, **opts):
    o = {"rows": rows, "wit": 1 if pid in "nghxy" else 3}
    if awards is not None:
        o["awards"] = awards
    o.update(opts)
    return {"id": f"{pid}{i}", "base": base, "lines": [], "opts": o}


def fam_c18(tier, seed):
    import itertools
    sks = []
    i = 0
    acts = ["Buy", "Sell", "Cash Dividend", "Qualified Dividend", "NRA Tax Adj", "NRA Withholding", "Stock Split", "Journal", "Mystery Action"]
    spell = ["plain", "dollar", "comma"]
    # every action alone, every spelling, plain and 'as of' dates, missing fees
    for a in acts + ["Short Term Cap Gain", "Long Term Cap Gain", "Wire Sent"]:
        for sp in spell:
            sks.append(conv(i, "a", [row(a, spelling=sp)])); i += 1
        sks.append(conv(i, "a", [row(a, listed=2)])); i += 1
        sks.append(conv(i, "a", [row(a, nofee=True)])); i += 1
    # a fee written with a minus sign (fee rebate / hostile export): whatever becomes of it, the output must remain valid DSL
    for sp in ("dollar", "plain"):
        sks.append(conv(i, "n", [row("Buy", spelling=sp, negfee=True)])); i += 1
        sks.append(conv(i, "n", [row("Buy"), row("Sell", day=1, spelling=sp, negfee=True)])); i += 1
    # pairs and triples of rows over two symbols and two days, all row orders explored by the 'perm' variant
    core = ["Buy", "Sell", "Cash Dividend", "NRA Tax Adj", "Mystery Action", "Journal"]
    for a1, a2 in itertools.product(core, repeat=2):
        for d2 in (0, 1):
            for s2 in ("A", "B"):
                sks.append(conv(i, "p", [row(a1), row(a2, sym=s2, day=d2)], variant="perm")); i += 1
    # newest-first exports with a row that becomes a comment (unknown action, stock split) between dated rows
    for mid in ("Mystery Action", "Stock Split", "Journal"):
        for a1 in ("Sell", "Buy", "Cash Dividend"):
            for a3 in ("Buy", "Sell"):
                sks.append(conv(i, "m", [row(a1, day=2), row(mid, day=1), row(a3, day=0)], variant="perm")); i += 1
                sks.append(conv(i, "m", [row(a1, day=30), row(mid, day=30), row(a3, day=0), row(mid, sym="B", day=0)], variant="perm")); i += 1
    # cancel rows: before/after their sell, identical sells, almost identical sells, unmatched
    S, C, B = "Sell", "Cancel Sell", "Buy"
    cancel_sets = [
        [row(B), row(S, day=1), row(C, day=1, same=1)],
        [row(B), row(C, day=1), row(S, day=1, same=1)],
        [row(B), row(S, day=1), row(S, day=1, same=1), row(C, day=1, same=1)],
        [row(B), row(S, day=1), row(S, day=1), row(C, day=1, same=1)],
        [row(B), row(S, day=1), row(S, day=1), row(C, day=1)],
        [row(B), row(S, day=1), row(C, day=1)],
        [row(B), row(S, day=1), row(C, day=2, same=1)],
        [row(B), row(S, day=1), row(C, day=1, sym="B", same=1)],
        [row(B), row(S, day=1), row(C, day=1, same=1), row(C, day=1, same=1)],
        [row(B), row(S, day=1), row(C, day=1, same=1, listed=3)],
        [row(B), row(S, day=1, listed=3), row(C, day=1, same=1)],
        [row(B), row(S, day=1), row(S, day=1, same=1), row(C, day=1, same=1), row(C, day=1, same=1)],
        [row(B), row(S, day=1), row(C, day=1, same=1), row(C, day=1, same=1), row(S, day=1, same=1), row(S, day=1, same=1)],
    ]
    for rs in cancel_sets:
        sks.append(conv(i, "c", rs, variant="perm")); i += 1
    # dividends with several withholding rows, several dividend rows on one day, withholding without dividend
    D, QD, T, W = "Cash Dividend", "Qualified Dividend", "NRA Tax Adj", "NRA Withholding"
    div_sets = [
        [row(D), row(T)], [row(D), row(T), row(W)], [row(D), row(QD), row(T)], [row(D), row(D), row(T)], [row(T), row(D), row(QD), row(W)],
        [row(D), row(T, day=1)], [row(D), row(T, sym="B")], [row(D, sym="A"), row(D, sym="B"), row(T, sym="B")], [row(D), row("Long Term Cap Gain"), row(W)],
    ]
    for rs in div_sets:
        sks.append(conv(i, "d", rs, variant="perm")); i += 1
    # RSU rows with an awards file (exact date), with trades around them; and without awards
    aw = [["A", 0, "fmv"], ["B", 1, "vest", 1]]
    sks.append(conv(i, "r", [row("Stock Plan Activity"), row(S, day=1)], awards=aw, variant="perm")); i += 1
    sks.append(conv(i, "r", [row("Stock Plan Activity"), row("Stock Plan Activity", sym="B", day=1), row(S, day=30)], awards=aw, variant="perm")); i += 1
    sks.append(conv(i, "r", [row("Stock Plan Activity"), row(S, day=1)])); i += 1
    sks.append(conv(i, "r", [row("Stock Plan Activity", sym="a")], awards=aw)); i += 1
    # chunking: date-disjoint chunks reported together equal the whole (report through the bundled USD rates)
    chunk_sets = [
        [row(B), row(S, day=1)], [row(B), row(S, day=30), row(B, day=31)], [row(B), row(S, day=1), row(D, day=1), row(T, day=1)],
        [row(B), row(B, sym="B"), row(S, day=1), row(S, sym="B", day=2)], [row(B), row(S, day=20), row(S, day=40), row("Mystery Action", day=40)],
    ]
    for rs in chunk_sets:
        sks.append(conv(i, "k", rs, variant="chunks")); i += 1
        sks.append(conv(i, "k", list(reversed(rs)), variant="chunks")); i += 1
    sks.append(conv(i, "q", [row(B), row(S, day=1), row(D, day=1)], variant="perm", report=1)); i += 1
    # free text: the descriptions a broker might emit (concrete samples; the '#' comment line must contain them)
    for desc in ["multi\nline", "carriage\rreturn", "crlf\r\n2024-01-01 SELL XYZ 100 @ 1.00", "# hash", "tab\tseparated", "2024-01-01 BUY A 1 @ 1", "unicode   separator", "trailing newline\n", "\n", "\x0b\x0c"]:
        sks.append(conv(i, "t", [row(B), row("Mystery Action", desc=desc), row(S, day=1)])); i += 1
        sks.append(conv(i, "t", [row("Mystery Action", sym=desc.strip() or "X")])); i += 1
    if tier == "thorough":
        for a1, a2, a3 in itertools.product(["Buy", "Sell", "Cash Dividend", "NRA Tax Adj", "Cancel Sell"], repeat=3):
            sks.append(conv(i, "p3", [row(a1), row(a2, day=1), row(a3, day=1)], variant="perm")); i += 1
    return sks


def fam_c19(tier, seed):
    sks = []
    i = 0
    R = "Stock Plan Activity"
    # the deposit row sits at day 0 of each base; awards entries at every gap -3..+10 (entry day = -gap)
    bases = ["2024-03-15", "2024-03-03", "2024-01-04"]  # mid-month, across a month end (leap February), across a year end
    gaps = list(range(-3, 11))
    for b in bases:
        sks.append(conv(i, "n", [row(R)], base=b, awards=[])); i += 1
        sks.append(conv(i, "n", [row(R)], base=b)); i += 1
        for g in gaps:
            for kind in ("fmv", "vest"):
                aw = [["A", -g, kind, -g]]
                sks.append(conv(i, "g", [row(R)], base=b, awards=aw)); i += 1
        # two competing entries
        for g1 in gaps:
            for g2 in gaps:
                if g1 < g2 and (tier == "thorough" or (g1 in (-1, 0, 1, 2, 7) and g2 in (0, 1, 3, 7, 8))):
                    sks.append(conv(i, "h", [row(R)], base=b, awards=[["A", -g1, "fmv"], ["A", -g2, "fmv"]])); i += 1
                    sks.append(conv(i, "h", [row(R)], base=b, awards=[["A", -g2, "fmv"], ["A", -g1, "fmv"]])); i += 1
    b = bases[0]
    extra = [
        [["A", 0, "fmv"], ["A", 0, "fmv"]],                       # duplicate dates
        [["A", -2, "both", -1]],                                   # vest-specific value stored under the vest date, not the parent date
        [["A", 0, "both", -3]],
        [["A", -9, "both", -2]],
        [["B", 0, "fmv"]],                                         # only another symbol
        [["a", -1, "fmv"]],                                        # mixed case
        [["A", -1, "empty", None, "Wire Transfer"], ["A", -2, "fmv"]],   # non-vesting cash action with empty details
        [["A", -1, "empty", None, "Deposit"]],                     # vesting action with empty details: error
        [["A", -8, "fmv"], ["B", -1, "fmv"]],
        [["A", 1, "fmv"], ["A", -8, "fmv"]],
        # one award transaction with a vest-specific detail and a fallback-only detail, in both orders
        [["A", 0, "mixed", 0]], [["A", 0, "mixed2", 0]], [["A", 0, "mixed", -2]], [["A", 0, "mixed2", -2]], [["A", -1, "mixed", -3]], [["A", -1, "mixed2", None]],
    ]
    for aw in extra:
        sks.append(conv(i, "x", [row(R)], base=b, awards=aw)); i += 1
        sks.append(conv(i, "x", [row(R, sym="a")], base=b, awards=aw)); i += 1
    # entries of the two price formats mixed in one awards file (vest-specific before / after fallback-only), also across symbols
    for (g1, g2) in ((1, 9), (9, 1), (0, 3), (3, 0), (2, 8), (7, 1), (-1, 2)):
        for (k1, k2) in (("vest", "fmv"), ("fmv", "vest")):
            a1 = ["A", -g1, k1] + ([-g1] if k1 == "vest" else [])
            a2 = ["A", -g2, k2] + ([-g2] if k2 == "vest" else [])
            sks.append(conv(i, "k", [row(R)], base=b, awards=[a1, a2])); i += 1
    for aw in ([["B", -1, "vest", -1], ["A", -1, "fmv"]], [["B", -5, "vest", -5], ["A", 0, "fmv"]], [["A", -1, "fmv"], ["B", -1, "vest", -1]],
               [["B", 0, "vest", 0], ["A", -2, "fmv"], ["A", -1, "vest", -1]]):
        sks.append(conv(i, "k", [row(R)], base=b, awards=aw)); i += 1
    # deposits of two symbols on one day (each must be priced from its own entries, or refused by name)
    for aw in ([["A", -1, "fmv"], ["B", -3, "fmv"]], [["B", -3, "vest", -3], ["A", -1, "fmv"]], [["A", -1, "fmv"]], [["B", 0, "fmv"]],
               [["A", 0, "vest", 0], ["B", -7, "fmv"]], [["A", -8, "fmv"], ["B", -2, "fmv"]]):
        sks.append(conv(i, "z", [row(R), row(R, sym="B")], base=b, awards=aw)); i += 1
        sks.append(conv(i, "z", [row(R, sym="B"), row(R)], base=b, awards=aw)); i += 1
    # two deposits sharing one entry; deposit plus sale
    sks.append(conv(i, "y", [row(R), row(R, day=2)], base=b, awards=[["A", -1, "fmv"]])); i += 1
    sks.append(conv(i, "y", [row(R), row("Sell", day=1)], base=b, awards=[["A", -3, "vest", -3]])); i += 1
    return sks


SPECS.update({
    "C18": dict(id="C18", families=fam_c18, chunk=1, entry_points=["cgt_converter::schwab::SchwabConverter::convert (parse_transactions_json, process_transactions, apply_cancellations)", "cgt_converter::schwab::parse_dollar_amount / transactions::parse_date", "cgt_converter::output::{format_trade,format_dividend,format_comment,generate_header}", "cgt_converter::schwab::awards::{parse_awards_json,get_fmv}", "cgt_core::parser::parse_file", "cgt_core::calculator::calculate (chunks / row order reports)"],
                bounds=bounds_rel((
                    "exports of 1..4 rows over the actions Buy, Sell, Cancel Sell, Stock Plan Activity, four dividend kinds, two withholding kinds, Stock Split, Journal/Wire Sent, an unknown action; symbols {A,B}, days {0,1,2,30,31,40}, plain and 'as of' dates, amounts spelled plain / $ / $ with thousands commas / blank fees; every quantity, price, fee and amount symbolic; all pairs of 6 core actions; 11 cancel configurations, 9 dividend/withholding configurations, RSU rows with/without awards; row orders: reversal, rotation and all adjacent swaps; all cuts into two date-disjoint chunks for 10 exports; 10 hostile free-text descriptions (concrete samples)",
                    "as quick plus all triples of 5 actions")),
                assumptions=["an identical sell is one with equal date, symbol, quantity and price (decided symbolically, so 'two identical sells, one cancel' and 'almost identical' are both explored)", "a withholding row with no same-day dividend of its symbol is dropped by the tool and pinned so by the suite: only 'same-day withholding keeps its total' is demanded", "free text: decided by PEGSMT for every Description/Symbol content of up to 8 bytes (12 thorough) under the byte-wise transfer measured on the real converter (see other_engines), plus 20 concrete hostile samples"],
                outside=["arbitrary JSON shapes", "descriptions beyond the listed samples", "dividend rows with a blank amount"]),
    "C19": dict(id="C19", families=fam_c19, entry_points=["cgt_converter::schwab::awards::{parse_awards_json, extract_award_fmv, classify_award_action, AwardsData::get_fmv}", "cgt_converter::schwab::process_transactions (StockPlanActivity arm)", "cgt_core::parser::parse_file"],
                bounds=bounds_rel((
                    "one deposit row against awards files with one entry at every gap -3..+10 days (vest-specific and fallback price fields), two competing entries at selected gap pairs in both file orders, at three calendar positions (mid-month, across the end of a leap February, across a year end); duplicate dates, vest date differing from the parent date, other symbol, mixed case, cash actions with empty details, vesting action with empty details, no awards file; market values and quantities symbolic. The date gap is a small discrete domain that is ENUMERATED (chrono dates cannot be symbolic here); the solver decides which price term reaches the output",
                    "as quick with all gap pairs")),
                assumptions=["later entries of the same (symbol, date) replace earlier ones (pinned by the suite)"],
                outside=["gaps beyond -3..+10 days", "more than two competing entries"]),
})


# ---------------------------------------------------------------------------------------------- C16 (hook build)
def fam_c16(tier, seed):
    sks = []
    i = 0
    b = BASES[2]  # 2024-03-07: offsets 0/1 in 2023/24, 30/31 in 2024/25, 400 in 2025/26
    # two securities, two tax years, all numeric fields symbolic
    sym_shapes = [
        [["B", "A", 0], ["B", "B", 0], ["S", "A", 1], ["S", "B", 1]],
        [["B", "A", 0], ["B", "B", 0], ["S", "B", 1], ["S", "A", 30]],
        [["B", "A", 0], ["S", "A", 1], ["S", "A", 30]],
        [["B", "B", 0], ["B", "A", 0], ["S", "A", 30], ["S", "B", 30]],
        [["B", "A", 0], ["B", "B", 0], ["D", "A", 1], ["D", "B", 30], ["S", "A", 30]],
        # same-day sales listed in non-alphabetical ticker order
        [["B", "B", 0], ["B", "A", 0], ["S", "B", 1], ["S", "A", 1]],
    ]
    # lines in date order whose same-day tickers are listed non-alphabetically, trades and asset events
    sym_shapes.append([["B", "B", 0], ["B", "A", 0], ["D", "B", 1], ["C", "B", 1], ["D", "A", 1], ["S", "B", 30], ["S", "A", 30]])
    for sh in sym_shapes:
        # prices and fees symbolic (so every gain sign is explored), quantities concrete (no matcher forks)
        sks.append(mk(i, "s", sh, base=b, wit=60, mode="PF")); i += 1
        sks.append(mk(i, "s", sh, base=b, wit=60, mode="PF", year=2024)); i += 1
    sks.append(mk(i, "s", [["B", "A", 0], ["B", "B", 0], ["S", "A", 1]], base=b, wit=3)); i += 1
    # three securities, three tax years, several disposals per day: quantities symbolic, prices/fees constants
    big = [
        [["B", "A", 0], ["B", "B", 0], ["B", "C", 0], ["S", "A", 1], ["S", "B", 1], ["S", "C", 1]],
        [["B", "C", 0], ["B", "A", 0], ["B", "B", 0], ["S", "C", 1], ["S", "A", 30], ["S", "B", 400]],
        [["B", "A", 0], ["B", "B", 0], ["B", "C", 0], ["S", "A", 1], ["S", "B", 30], ["S", "C", 30], ["S", "A", 400], ["S", "B", 400]],
    ]
    # long symbols sharing a long prefix (same-issuer ISINs), sold on one day, listed in non-alphabetical order
    I1, I2, I3 = "IE00B4L5Y983", "IE00B4L5YC18", "IE00B4L5Y0AA"
    big.append([["B", I2, 0], ["B", I1, 0], ["B", I3, 0], ["S", I2, 1], ["S", I3, 1], ["S", I1, 1]])
    big.append([["B", "VOD", 0], ["B", "BARC", 0], ["B", "LLOY", 0], ["B", "AZN", 0], ["S", "VOD", 1], ["S", "BARC", 1], ["S", "LLOY", 1], ["S", "AZN", 1]])
    for sh in big:
        sks.append(mk(i, "q", sh, base=b, wit=5, mode="")); i += 1
    # quantities symbolic, so that the solver also takes the paths on which securities are sold completely (emptied pools
    # stay in the holdings list of the JSON report and must still be in ticker order)
    for sh in ([["B", "B", 0], ["B", "A", 0], ["S", "B", 1], ["S", "A", 1]],
               [["B", "C", 0], ["B", "A", 0], ["B", "B", 0], ["S", "B", 1], ["S", "C", 1], ["S", "A", 30]]):
        sks.append(mk(i, "z", sh, base=b, wit=5, mode="Q")); i += 1
    if tier == "thorough":
        # the two-security ledgers again with every numeric field symbolic (matcher forks x gain signs x map orders)
        for sh in sym_shapes[:4]:
            sks.append(mk(i, "t", sh, base=b, wit=60)); i += 1
    return sks


SPECS["C16"] = dict(
    id="C16", families=fam_c16, hook=True, chunk=1, env={"SYMX_MAX_LEAVES": "60000"},
    entry_points=["cgt_core::calculator::calculate (pools.into_values, matches_by_year traversal, disposal_map.into_iter)", "cgt_core::matcher::Matcher::{process, compute_cost_offsets} (ledgers.values)", "cgt_core::ordering::sort_by_date_ticker", "cgt_core::verif_map (hook, cfg cgt_verif)", "cgt_formatter_plain::format"],
    bounds=bounds_rel((
        "5 ledgers of two securities over two tax years (all-years report and year filter 2024) with every numeric field symbolic, and 3 ledgers of three securities / three tax years / up to 3 disposals per year with concrete numbers; at every traversal of a core map ALL permutations of its entries are explored (maps of up to 4 entries), and the resulting report is proved identical, in order and in every figure, to the one computed with insertion order",
        "as quick plus the two-security ledgers with every numeric field symbolic")),
    assumptions=["built with the cfg-guarded hook (--cfg cgt_verif): crates/cgt-core/src/verif_map.rs replaces std::collections::HashMap in calculator.rs, matcher/mod.rs, matcher/bed_and_breakfast.rs; hash iteration order is the only source of cross-process variation in the core"],
    outside=["byte identity across processes and of PDF output (quantifies over OS-level executions)", "maps in cgt-money (FxCache: lookups only), cgt-converter (lookups/removals only), validation (lookups only)"])


from . import c18extra  # noqa: E402

SPECS["C18"]["extra_engines"] = [c18extra.freetext]
