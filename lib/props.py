"""Per-property specifications for the SYMX runner: skeleton families per tier, entry points, bounds."""
from . import skeletons as sk
from .skeletons import BASES, FULL, SHORT, mk

WIT = 7  # every ~7th leaf gets a path witness


def _number(prefix, items, **opts):
    return [mk(i, prefix, lines, base=base, wit=WIT, **opts) for i, (lines, base) in enumerate(items)]


def matching_family(tier, seed, events=(), need_sell=True, two_sec=True):
    """B/S ledgers of one security on the short palette (all N <= 5), again at the other calendar positions when
    they span a 30-day window, plus split/unsplit placements and two-security ledgers."""
    items = []
    nmax = 5
    core = list(sk.bs_family(1, nmax, SHORT, need_sell=need_sell))
    for l in core:
        items.append((l, BASES[0]))
    for l in core:
        if len(l) <= (4 if tier == "quick" else 5) and sk.spans_window(l):
            for b in BASES[1:]:
                items.append((l, b))
    if tier == "thorough":
        for l in sk.bs_family(6, 6, SHORT, need_sell=need_sell):
            items.append((l, BASES[0]))
        for l in sk.bs_family(1, 4, FULL, need_sell=need_sell):
            for b in BASES:
                items.append((l, b))
    else:
        # a VERIF_SEED-rotated 1/8 slice of N = 6
        six = list(sk.bs_family(6, 6, SHORT, need_sell=need_sell))
        items += [(l, BASES[0]) for i, l in enumerate(six) if i % 8 == seed % 8]
    if events:
        nb = 3 if tier == "quick" else 4
        base = list(sk.bs_family(2, nb, SHORT, need_sell=need_sell))
        ratios = ("2",) if tier == "quick" else ("2", "5/2")
        for l in sk.with_events(base, events, SHORT, ratios=ratios, max_events=1):
            items.append((l, BASES[0]))
        if tier == "thorough":
            base3 = list(sk.bs_family(2, 3, SHORT, need_sell=need_sell))
            for l in sk.with_events(base3, events, SHORT, ratios=("2",), max_events=2):
                if sum(1 for x in l if x[0] in events) == 2:
                    items.append((l, BASES[0]))
    if two_sec:
        n2 = 4 if tier == "quick" else 5
        for l in sk.bs_family(2, n2, [0, 1, 30] if tier == "quick" else SHORT, tickers=("A", "B"), need_sell=need_sell):
            items.append((l, BASES[0]))
    # de-duplicate (events at N may re-create plain ledgers)
    seen, out = set(), []
    for l, b in items:
        k = (tuple(tuple(x) for x in l), b)
        if k not in seen:
            seen.add(k)
            out.append((l, b))
    return out


MATCHER_ENTRY = [
    "cgt_core::models::transactions_to_gbp",
    "cgt_core::matcher::Matcher::process (preprocess, compute_cost_offsets, process_sell, move_buy_to_pool, process_corporate_action)",
    "cgt_core::matcher::same_day::match_same_day",
    "cgt_core::matcher::bed_and_breakfast::match_bed_and_breakfast (available_for_bnb_after_reservations, matched_buy_cost, matched_quantities_with_split_ratio)",
    "cgt_core::matcher::section104::match_section_104",
    "cgt_core::matcher::acquisition_ledger::AcquisitionLedger::*",
    "cgt_core::matcher::compute_proceeds",
]
REPORT_ENTRY = MATCHER_ENTRY + [
    "cgt_core::calculator::calculate (group_matches_into_disposals, calculate_totals, build_all_tax_year_summaries, aggregate_dividends)",
    "cgt_core::config::Config::get_exemption",
]


def report_level(items, nmax_lines=4, max_sell_days=2, quick=True):
    out = []
    for l, b in items:
        if len(l) > nmax_lines or len({(x[1], x[2]) for x in l if x[0] == "S"}) > max_sell_days:
            continue
        if quick and len(l) == nmax_lines and (any(x[0] not in "BS" for x in l) or len({x[1] for x in l}) > 1):
            continue
        out.append((l, b))
    return out


def fam_c01(tier, seed):
    items = matching_family(tier, seed, events=("X", "U"))
    sks = _number("m", items)
    rep = report_level([it for it in items if it[1] == BASES[0]], 4 if tier == "quick" else 5, quick=tier == "quick")
    sks += _number("r", rep, level="report")
    return sks


def fam_c02(tier, seed):
    items = matching_family(tier, seed, events=("X", "U", "C", "M", "D"))
    sks = _number("m", items)
    rep = report_level([it for it in items if it[1] == BASES[0]], 4 if tier == "quick" else 5, quick=tier == "quick")
    sks += _number("r", rep, level="report")
    return sks


def fam_c05(tier, seed):
    items = matching_family(tier, seed, events=("X", "U"))
    sks = _number("m", items)
    rep = report_level([it for it in items if it[1] == BASES[0]], 3 if tier == "quick" else 4, quick=False)
    sks += _number("r", rep, level="report")
    return sks


def bounds_matching(tier):
    if tier == "quick":
        return ("every B/S ledger of one security with 1..5 lines on day offsets {0,1,30,31} from 2024-01-10 (and, for ledgers of <= 4 lines spanning >= 29 days, "
                "from 2024-02-01, 2024-03-07, 2023-12-05); a seed-rotated 1/8 of the 6-line ledgers; 2..3 trade lines plus one corporate-action/event line at every "
                "palette day (ratio 2); two securities with 2..4 lines on {0,1,30}; the same obligations through calculator::calculate for ledgers of <= 4 lines and <= 2 disposal days; "
                "every quantity, price, fee, total a real-valued symbol (quantity > 0, money >= 0); <= 20000 paths per skeleton")
    return ("every B/S ledger of one security with 1..6 lines on {0,1,30,31} from 2024-01-10, 1..5 lines at the three other calendar positions, 1..4 lines on the full palette "
            "{0,1,29,30,31,32,61} at all four positions; 2..4 trade lines plus one event line (ratios 2, 5/2), 2..3 trade lines plus two event lines; two securities with 2..5 lines; "
            "report level for <= 5 lines; all numeric fields symbolic; <= 20000 paths per skeleton")


COMMON_ASSUME = [
    "rust_decimal::Decimal is modelled as an exact real: the 28-significant-digit rounding of products/quotients (relative error <= 5e-29) and the 96-bit overflow are not modelled",
    "dates are concrete per skeleton (palette); numeric inputs satisfy the documented validity predicate only (quantity > 0, price/fee/total >= 0, ratio > 0)",
    "skeleton lines are in canonical order (by date, corporate actions last within a day); line order is varied under C06 only",
    "the shim is validated against the real rust_decimal at setup and by path witnesses replayed on a build with the real crate on every run",
]
OUTSIDE = ["ledgers longer than the bound", "dates off the palette", "decimal residue effects (e.g. the 3-for-1 split refusal mentioned under C05)"]

SPECS = {
    "C01": dict(
        id="C01", families=fam_c01, entry_points=REPORT_ENTRY, bounds=bounds_matching, assumptions=COMMON_ASSUME + [
            "oracle: /verif/symx/harness/src/spec.rs, a reference evaluator of TCGA92 s105(1)/s106A/s104 written from the statute and docs/tax-rules.md; costs are compared only for ledgers without CAPRETURN/ACCUMULATION"],
        outside=OUTSIDE),
    "C02": dict(id="C02", families=fam_c02, entry_points=REPORT_ENTRY, bounds=bounds_matching, assumptions=COMMON_ASSUME, outside=OUTSIDE),
    "C03": dict(id="C03", families=fam_c02, entry_points=REPORT_ENTRY, bounds=bounds_matching, assumptions=COMMON_ASSUME + [
        "a CAPRETURN/ACCUMULATION takes effect iff shares of the security are held at the start of its day (conservation law over the same inputs)"], outside=OUTSIDE),
    "C05": dict(id="C05", families=fam_c05, entry_points=REPORT_ENTRY, bounds=bounds_matching, assumptions=COMMON_ASSUME + [
        "coverage predicate: running holding (acquisitions - disposals, rescaled by splits at day end) >= 0 after every day with a SELL"],
        outside=OUTSIDE + ["CLI/MCP 'no partial output' (process and I/O behaviour)"]),
}
