#!/bin/bash
# usage: trymut.sh <patch.diff> <check ids...> : apply a seeded change to /repo, run the checks (quick), undo it
p=$1; shift
cd /repo || exit 9
if ! git apply --check "$p" 2>/dev/null; then
  if git apply --3way --check "$p" 2>/dev/null; then :; else echo "PATCH DOES NOT APPLY: $p"; exit 8; fi
fi
git apply "$p" 2>/dev/null || git apply --3way "$p" || { echo "apply failed"; git reset -q --hard HEAD; exit 8; }
cd /verif
for c in "$@"; do
  out=$(./check $c 2>&1); rc=$?
  echo "== $c rc=$rc :: $(echo "$out" | grep -E "^VIOLATION" | head -2 | tr '\n' ' ') $(echo "$out" | grep -E "^\[$c\] tier" | cut -c1-160) $(echo "$out" | grep -E "^INCONCLUSIVE" | head -1 | cut -c1-200)"
done
cd /repo && git reset -q --hard HEAD && git status --short | head -3
