#!/bin/bash
# usage: rmseed.sh <name>  -> remove the scratch worktree and its build output
n=$1
git -C /repo worktree remove --force /tmp/seed/$n/wt 2>/dev/null
rm -rf /tmp/seed/$n
git -C /repo worktree prune
