#!/usr/bin/env python3
import json,glob,sys,collections,re
pid=sys.argv[1]; n=int(sys.argv[2]) if len(sys.argv)>2 else 12
g=collections.OrderedDict()
for f in sorted(glob.glob(f'/verif/evidence/replays/{pid}-*.json'), key=lambda x:int(re.findall(r'-(\d+)\.json',x)[0])):
    r=json.load(open(f)); sk=r['record']
    sh=' '.join(f"{l[0]}{'' if l[1]=='A' else 'b'}{l[2]}{('x'+str(l[3])) if len(l)>3 and l[3] else ''}" for l in sk['lines'])
    ob=re.sub(r'\[.*\]','',r['obligation'])
    g.setdefault(ob,[]).append((f.split('/')[-1],r['obligation'],sh,sk['opts'],(r['failed_atoms'] or [r['why']])[:3], sk['values']))
for ob,v in g.items():
    print('==',ob,len(v))
    for x in v[:n]: print('  ',x[0],x[1],'|',x[2],'|',{k:v for k,v in x[3].items() if k not in('mode','wit')},'|',x[4])
