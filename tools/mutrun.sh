#!/bin/bash
# usage: mutrun.sh <slot> <patch.diff> <check ids...>
# try a seeded change in the scratch worktree /tmp/mut/<slot> (never in /repo): reset, apply, run the checks against it.
# The worktree and its shadow build dir are reused between calls (incremental builds); remove with: mutrun.sh <slot> --clean
n=$1; p=$2; shift 2
wt=/tmp/mut/$n
if [ "$p" = "--clean" ]; then
  git -C /repo worktree remove --force $wt 2>/dev/null; git -C /repo worktree prune; rm -rf $wt /verif/.build/shadow/tmp_mut_$n; exit 0
fi
mkdir -p /tmp/mut
[ -d $wt/.git ] || [ -f $wt/.git ] || git -C /repo worktree add --detach $wt HEAD >/dev/null 2>&1 || { echo "worktree failed"; exit 9; }
cd $wt && git reset -q --hard $(git -C /repo rev-parse HEAD) && git clean -fdq
if ! git apply "$p" 2>/dev/null; then
  git apply --3way "$p" >/dev/null 2>&1 || { echo "PATCH DOES NOT APPLY: $p"; git reset -q --hard; exit 8; }
fi
cd /verif
for c in "$@"; do
  out=$(VERIF_REPO=$wt ./check $c 2>&1); rc=$?
  echo "== $(basename $(dirname $p))/$(basename $p .patch.diff) $c rc=$rc :: $(echo "$out" | grep -cE "^VIOLATION") violations $(echo "$out" | grep -E "^VIOLATION" | head -1); $(echo "$out" | grep -E "^\[$c\] tier" | cut -c1-170) $(echo "$out" | grep -E "^INCONCLUSIVE" | head -1 | cut -c1-240)"
done
cd $wt && git reset -q --hard
