#!/usr/bin/env python3
"""seedtable.py set <id> <detected,comma> <notdetected,comma> <note>   |   seedtable.py table  -> markdown rows for DESIGN.md 8.7"""
import json, sys, glob, os
if sys.argv[1] == "set":
    _, _, sid, det, nd, note = sys.argv
    p = f"/verif/seeded/{sid}/meta.json"
    m = json.load(open(p))
    m["detected_by"] = [x for x in det.split(",") if x]
    m["not_detected_by"] = [x for x in nd.split(",") if x]
    m["note"] = note
    json.dump(m, open(p, "w"), indent=1)
else:
    for d in sorted(glob.glob("/verif/seeded/*/meta.json")):
        m = json.load(open(d))
        det = ", ".join(m.get("detected_by") or []) or "**none**"
        if not m.get("note") and m["id"].startswith("revert-"):
            m["note"] = m.get("origin", "")
        print(f"| {m['id']} | {m['breaks_property']} | {det} | {', '.join(m.get('not_detected_by') or [])} | {m.get('note','')} |")
