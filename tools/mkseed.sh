#!/bin/bash
# usage: mkseed.sh <name>   -> scratch worktree of /repo at /tmp/seed/<name>/wt with a pre-warmed target dir
set -e
n=$1
mkdir -p /tmp/seed/$n
git -C /repo worktree add --detach /tmp/seed/$n/wt HEAD >/dev/null 2>&1
mkdir -p /tmp/seed/$n/out
if [ -d /repo/target/debug ]; then
  mkdir -p /tmp/seed/$n/target
  cp -r /repo/target/debug /tmp/seed/$n/target/debug
fi
echo /tmp/seed/$n
