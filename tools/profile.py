#!/usr/bin/env python3
"""profile a property's skeleton family: top skeletons by wall time, totals per family prefix"""
import sys, collections
sys.path.insert(0, '/verif')
from lib import props, symx
from lib.skeletons import shape
pid = sys.argv[1]; tier = sys.argv[2] if len(sys.argv) > 2 else 'quick'
spec = props.SPECS[pid]
symx.build_all()
sks = spec['families'](tier, 0)
by = {s['id']: s for s in sks}
leaves, sums, fails = symx.run_symx(spec.get('harness_prop', pid), sks, 'prof')
agg = collections.defaultdict(lambda: [0, 0, 0, 0])
for s in sums:
    k = (s['sk'][0], len(by[s['sk']]['lines']))
    a = agg[k]; a[0] += 1; a[1] += s['leaves']; a[2] += s['wall_ms']; a[3] += s['unknown_branch']
for k in sorted(agg): print(k, 'skeletons', agg[k][0], 'paths', agg[k][1], 'wall_s', agg[k][2] / 1000, 'unknown_branch', agg[k][3])
for s in sorted(sums, key=lambda s: -s['wall_ms'])[:15]:
    print(s['wall_ms'], s['leaves'], s['unknown_branch'], by[s['sk']]['opts'].get('level', 'm'), shape(by[s['sk']]))
us = [(lf['sk'], o['n'], o['why']) for lf in leaves for o in lf['obs'] if o['v'] == 'U']
for u in us[:10]: print('U', shape(by[u[0]]), by[u[0]]['opts'].get('level','m'), u[1], u[2])
