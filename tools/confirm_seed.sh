#!/bin/bash
# usage: confirm_seed.sh <slot> <cand-dir> <a|b> [patchfile]
# Confirms one seeded change in a scratch worktree: (1) demo FAILS with the change, (2) the pinned suite PASSES with the
# change (demo removed), (3) demo PASSES without the change. Prints one summary line.
slot=$1; dir=$2; x=$3; patch=${4:-$dir/$x.patch.diff}
wt=/tmp/mut/$slot
export CARGO_TARGET_DIR=/tmp/mut/$slot-target CARGO_NET_OFFLINE=true TMPDIR=/tmp/mut/$slot-tmp
mkdir -p $TMPDIR /tmp/mut
[ -d $wt/.git ] || [ -f $wt/.git ] || git -C /repo worktree add --detach $wt HEAD >/dev/null 2>&1
if [ ! -d $CARGO_TARGET_DIR ]; then mkdir -p $CARGO_TARGET_DIR; cp -r /repo/target/debug $CARGO_TARGET_DIR/debug; rm -rf $CARGO_TARGET_DIR/debug/incremental; fi
cd $wt && git reset -q --hard $(git -C /repo rev-parse HEAD) && git clean -fdq
demo=$(ls $dir/$x.demo.* | head -1)
place=$(grep -oE "crates/[a-z-]+/tests/[a-z_0-9]+\.rs" $dir/$x.meta.txt | head -1)
[ -z "$place" ] && place="crates/cgt-core/tests/seed_demo_$x.rs"
crate=$(echo $place | cut -d/ -f2); tname=$(basename $place .rs)
git apply "$patch" 2>/dev/null || git apply --3way "$patch" >/dev/null 2>&1 || { echo "CONFIRM $dir/$x: PATCH DOES NOT APPLY"; exit 8; }
cp $demo $place
cargo test --offline -p $crate --test $tname > $TMPDIR/with.log 2>&1; rc_with=$?
rm -f $place
suite=$(cargo nextest run --workspace --no-fail-fast --tool-config-file pb:/w/lib/nextest.toml --profile pb --test-threads 8 --offline 2>&1 | grep -E "^\s*Summary" | tail -1)
git reset -q --hard; git clean -fdq
cp $demo $place
cargo test --offline -p $crate --test $tname > $TMPDIR/without.log 2>&1; rc_without=$?
rm -f $place; git reset -q --hard; git clean -fdq
echo "CONFIRM $dir/$x patch=$(basename $patch): demo-with-change rc=$rc_with ($(grep -E '^test result' $TMPDIR/with.log | head -1)); suite-with-change: $suite; demo-without-change rc=$rc_without ($(grep -E '^test result' $TMPDIR/without.log | head -1))"
