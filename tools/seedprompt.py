#!/usr/bin/env python3
"""Print the prompt handed to a mutation sub-agent for one property (text of the property only)."""
import json, sys
pid = sys.argv[1]
name = sys.argv[2] if len(sys.argv) > 2 else pid
for l in open('/verif/properties.jsonl'):
    p = json.loads(l)
    if p['id'] == pid:
        break
else:
    sys.exit('no such property')
print(f"""You are helping to test a verification tool by producing realistic, subtle regressions ("seeded bugs") in a Rust code base.

Code base: a scratch git worktree of the project velikodniy/cgt-tool (a UK capital gains tax calculator: DSL parser, HMRC share-matching engine, broker converters, formatters) at
    /tmp/seed/{name}/wt
Work ONLY inside /tmp/seed/{name}/ (the worktree is /tmp/seed/{name}/wt, put deliverables in /tmp/seed/{name}/out). Do not read or touch /repo, /verif or any other directory outside /tmp/seed/{name}; the sandbox has no network. For every cargo command use:
    export CARGO_TARGET_DIR=/tmp/seed/{name}/target CARGO_NET_OFFLINE=true TMPDIR=/tmp/seed/{name}/tmp   (mkdir -p that TMPDIR first: some tests write fixed file names into the temp dir and other jobs run the same suite concurrently)
(the target dir is pre-warmed; always pass --offline to cargo).

The property that must be BROKEN by your change:

    Title: {p['title']}
    Statement: {p['statement']}
    It must hold over: {p['quantifier']['text']}

Task: produce TWO independent source changes (mutation A and mutation B, different mechanisms/locations, each on its own relative to the pristine worktree) to the project's non-test source code (crates/*/src, grammar, data files) such that for each change:
  1. the workspace still compiles;
  2. the complete existing test suite still passes, unedited:  cd /tmp/seed/{name}/wt && cargo test --workspace --no-fail-fast --offline   (all tests must pass with your change; run it and confirm; do not edit, delete or ignore any existing test or golden file);
  3. the property above is violated for SOME input, but the violation needs something specific to manifest: an unusual input, a particular combination or ordering of transactions, a multi-step sequence, a boundary value, or two cooperating code sites that each look fine alone. It must NOT be something ordinary use would expose at once (that is why the existing tests must keep passing). The change should look like a plausible refactoring slip, optimisation or "simplification" a maintainer could make by accident, not sabotage: no special-casing magic tickers/dates/constants, no dead code, no comments announcing it.
  4. you provide a demonstration: a new Rust integration test file (e.g. crates/<crate>/tests/seed_demo_a.rs) or small program that exercises the public API / CLI, which FAILS with the change applied and PASSES on the pristine code. Verify both directions yourself.

Deliverables (for mutation A; likewise B with suffix b) in /tmp/seed/{name}/out/:
  - a.patch.diff : output of `git diff` for the source change only (no demo), relative to the worktree root, applies with `git apply` to pristine code;
  - a.demo.rs (or a.demo.sh) : the demonstration, plus in a.meta.txt the exact command to run it and where the file has to be placed;
  - a.meta.txt : which part of the property it breaks, what it needs in order to manifest (the specific input/sequence), what you ran and the observed pass/fail results in both directions, and the result line of the full test suite with the change applied.
When finished leave the worktree pristine (git checkout -- . ; remove demo files from it) and reply with a short summary of the two mutations (files touched, what they need to manifest). Be economical: full-suite runs take a few minutes each; do not run more than needed.""")
