#!/usr/bin/env python3
"""install_seed.py <new-id> <property> <cand-dir> <a|b> <confirm-log> [patchfile]  -> seeded/<new-id>/ (patch.diff, demo, agent_meta.txt, meta.json)"""
import json, os, re, shutil, subprocess, sys, glob
nid, prop, cand, x, log = sys.argv[1:6]
patch = sys.argv[6] if len(sys.argv) > 6 else f"{cand}/{x}.patch.diff"
d = f"/verif/seeded/{nid}"
os.makedirs(d, exist_ok=True)
shutil.copy(patch, f"{d}/patch.diff")
demo = sorted(glob.glob(f"{cand}/{x}.demo.*"))[0]
shutil.copy(demo, f"{d}/demo" + os.path.splitext(demo)[1])
shutil.copy(f"{cand}/{x}.meta.txt", f"{d}/agent_meta.txt")
meta = open(f"{cand}/{x}.meta.txt").read()
place = re.search(r"crates/[a-z-]+/tests/[a-z_0-9]+\.rs", meta)
line = [l for l in open(log) if f"/{x} patch=" in l][-1]
m = re.search(r"demo-with-change rc=(\d+).*suite-with-change:\s+Summary \[[^\]]*\] (\d+) tests run: (\d+) passed.*demo-without-change rc=(\d+)", line)
head = subprocess.check_output(["git", "-C", "/repo", "rev-parse", "--short", "HEAD"], text=True).strip()
json.dump({
    "id": nid, "breaks_property": prop,
    "origin": "sub-agent (round 3) given only the text of the property, its own scratch worktree and a list of mechanisms already used by earlier agents" + ("; ported by hand onto the tree with a later fix commit (same semantic change)" if "ported" in patch else ""),
    "needs_to_manifest": " ".join(meta.split())[:900],
    "agent_notes_file": "agent_meta.txt",
    "demo_placement": place.group(0) if place else "",
    "confirmed_by_me": {"demo_with_change": f"FAILS (rc {m.group(1)})", "pinned_suite_with_change": f"{m.group(3)}/{m.group(2)} passed", "demo_without_change": f"passes (rc {m.group(4)})" if m.group(4) == "0" else f"rc {m.group(4)}", "command": "tools/confirm_seed.sh <slot> <candidate dir> <a|b> [patch]"},
    "applies_to_repo_head": head, "detected_by": [], "not_detected_by": [], "note": "", "how_checked": f"tools/mutrun.sh <slot> seeded/{nid}/patch.diff <check ids>; quick tier",
}, open(f"{d}/meta.json", "w"), indent=1)
print(nid, "installed")
