#!/bin/bash
# run the pinned baseline suite of a checkout (default /repo); prints the summary line
d=${1:-/repo}
cd $d && cargo nextest run --workspace --no-fail-fast --tool-config-file pb:/w/lib/nextest.toml --profile pb --test-threads 8 --offline 2>&1 | grep -E "^\s*(Summary|FAIL|error)" | sort | uniq -c | head -20
