//! Kani proof harnesses (run by /verif/check C07 and C17).  Rules baked in from the probes (DESIGN.md 0 / 1.2):
//! never let a `CgtError` or a `String` be dropped (`mem::forget`), never reach a `HashMap`, never do Decimal
//! `+ - * /` on symbolic values, keep the unwinding assertions on, one `kani::cover!` witness per harness.
#![allow(dead_code)]

#[cfg(kani)]
mod proofs {
    use cgt_core::TaxPeriod;
    use chrono::{Datelike, NaiveDate};

    /// statute: 6 April Y .. 5 April Y+1 is tax year Y
    fn spec_year(y: i32, m: u32, d: u32) -> i32 {
        if m < 4 || (m == 4 && d < 6) { y - 1 } else { y }
    }

    /// K1: for EVERY calendar date with a 4-digit year, `TaxPeriod::from_date` returns the statutory tax year
    /// when it lies in 1900..=2100 and an error otherwise.
    #[kani::proof]
    fn k1_from_date_all_dates() {
        let y: i32 = kani::any();
        let m: u32 = kani::any();
        let d: u32 = kani::any();
        kani::assume((0..=9999).contains(&y) && (1..=12).contains(&m) && (1..=31).contains(&d));
        if let Some(date) = NaiveDate::from_ymd_opt(y, m, d) {
            let r = TaxPeriod::from_date(date);
            let want = spec_year(y, m, d);
            match &r {
                Ok(p) => {
                    assert!((1900..=2100).contains(&want));
                    assert!(p.start_year() as i32 == want);
                    assert!(p.end_year() as i32 == want + 1);
                }
                Err(_) => assert!(!(1900..=2100).contains(&want)),
            }
            kani::cover!(r.is_ok() && m == 4 && d == 5);
            kani::cover!(r.is_ok() && m == 4 && d == 6);
            kani::cover!(r.is_err());
            core::mem::forget(r);
        }
    }

    /// K2: start_date / end_date are 6 April Y and 5 April Y+1, both map back to Y, the days just outside do not.
    #[kani::proof]
    fn k2_period_bounds() {
        let y: u16 = kani::any();
        let r = TaxPeriod::new(y);
        if let Ok(p) = &r {
            assert!((1900..=2100).contains(&y));
            let s = p.start_date();
            let e = p.end_date();
            assert!(s == NaiveDate::from_ymd_opt(y as i32, 4, 6));
            assert!(e == NaiveDate::from_ymd_opt(y as i32 + 1, 4, 5));
            if let (Some(s), Some(e)) = (s, e) {
                let a = TaxPeriod::from_date(s);
                let b = TaxPeriod::from_date(e);
                assert!(matches!(&a, Ok(q) if q.start_year() == y));
                assert!(matches!(&b, Ok(q) if q.start_year() == y));
                let before = TaxPeriod::from_date(NaiveDate::from_ymd_opt(y as i32, 4, 5).unwrap_or(s));
                let after = TaxPeriod::from_date(NaiveDate::from_ymd_opt(y as i32 + 1, 4, 6).unwrap_or(e));
                match &before {
                    Ok(q) => assert!(q.start_year() == y - 1),
                    Err(_) => assert!(y == 1900),
                }
                match &after {
                    Ok(q) => assert!(q.start_year() == y + 1),
                    Err(_) => assert!(y == 2100),
                }
                kani::cover!(before.is_err());
                kani::cover!(after.is_err());
                kani::cover!(before.is_ok() && after.is_ok());
                core::mem::forget((a, b, before, after));
            }
        } else {
            assert!(!(1900..=2100).contains(&y));
        }
        kani::cover!(r.is_ok());
        kani::cover!(r.is_err());
        core::mem::forget(r);
    }

    #[allow(unused_imports, clippy::all)]
    mod mcp {
        use chrono::Datelike;
        include!(concat!(env!("OUT_DIR"), "/mcp_extract.rs"));
    }

    /// K4: the tax-year derivation that the MCP tool `explain_matching` spells out inline (copied from the current
    /// source by build.rs, whatever its syntax) equals the statute on EVERY calendar date with a 4-digit year.
    #[kani::proof]
    fn k4_mcp_explain_year_all_dates() {
        let y: i32 = kani::any();
        let m: u32 = kani::any();
        let d: u32 = kani::any();
        kani::assume((0..=9999).contains(&y) && (1..=12).contains(&m) && (1..=31).contains(&d));
        if let Some(date) = NaiveDate::from_ymd_opt(y, m, d) {
            let got = mcp::mcp_year(date);
            if let Some(g) = got {
                assert!(g == spec_year(y, m, d));
            }
            // vacuity witnesses: the statement was found, and both sides of the boundary are reached
            kani::cover!(got.is_some() && m == 4 && d == 5);
            kani::cover!(got.is_some() && m == 4 && d == 6);
        }
    }

    /// K3: month/day accessors agree with construction (anchors the spec's use of (y, m, d))
    #[kani::proof]
    fn k3_chrono_fields() {
        let y: i32 = kani::any();
        let m: u32 = kani::any();
        let d: u32 = kani::any();
        kani::assume((0..=9999).contains(&y) && (1..=12).contains(&m) && (1..=31).contains(&d));
        if let Some(date) = NaiveDate::from_ymd_opt(y, m, d) {
            assert!(date.year() == y && date.month() == m && date.day() == d);
            kani::cover!(m == 2 && d == 29);
        }
    }

    /// K5 (C17): `cgt_format::round_gbp` - the rounding every "£" figure of the text report goes through - on the REAL
    /// rust_decimal: for every value mantissa/10^scale with a 32-bit mantissa, either sign and scale <= 4, the result is the
    /// value rounded to pence with midpoints away from zero (integer specification), at scale 2, or the value itself when it
    /// has at most two decimals.
    #[kani::proof]
    #[kani::unwind(12)]
    fn k5_round_gbp_half_away_from_zero() {
        use rust_decimal::Decimal;
        let lo: u32 = kani::any();
        let scale: u32 = kani::any();
        let neg: bool = kani::any();
        kani::assume(scale <= 4);
        let d = Decimal::from_parts(lo, 0, 0, neg, scale);
        let r = cgt_format::round_gbp(d);
        let m = r.mantissa();
        if scale <= 2 {
            assert!(r.scale() == scale);
            assert!(m == if neg { -(lo as i128) } else { lo as i128 });
        } else {
            let p: u64 = if scale == 3 { 10 } else { 100 };
            let q = lo as u64 / p;
            let rem = lo as u64 % p;
            let e = (q + if rem * 2 >= p { 1 } else { 0 }) as i128;
            assert!(r.scale() == 2);
            assert!(m == if neg { -e } else { e });
            kani::cover!(rem * 2 == p && neg);
            kani::cover!(rem * 2 == p && !neg);
        }
    }
}
