//! Copies the MCP tool's own tax-year derivation (`let year = if <test on date> { .. } else { .. };` in
//! explain_matching) out of the current sources, so that K4 runs CBMC over the statement as it is written today.
use std::fs;
use std::path::Path;

fn main() {
    let mpath = "/repo/crates/cgt-mcp/src/server.rs";
    println!("cargo:rerun-if-changed={mpath}");
    let msrc = fs::read_to_string(mpath).unwrap_or_default();
    let mut mout = String::new();
    let stmt = msrc.find("let year = if ").and_then(|i| msrc[i..].find(";").map(|j| msrc[i..i + j + 1].to_string()));
    match stmt {
        Some(st) if st.contains("date.") && st.len() < 400 => {
            mout.push_str("pub fn mcp_year(date: chrono::NaiveDate) -> Option<i32> {\n    ");
            mout.push_str(&st);
            mout.push_str("\n    Some(year as i32)\n}\n");
        }
        _ => mout.push_str("pub fn mcp_year(_date: chrono::NaiveDate) -> Option<i32> { None }\n"),
    }
    fs::write(Path::new(&std::env::var("OUT_DIR").unwrap()).join("mcp_extract.rs"), mout).unwrap();
}
