use pest_meta::ast::{Expr, Rule as AstRule, RuleType};
use pest_meta::parser::{self, Rule};

fn esc(s: &str) -> String {
    let mut o = String::from("\"");
    for c in s.chars() {
        match c {
            '"' => o.push_str("\\\""),
            '\\' => o.push_str("\\\\"),
            '\n' => o.push_str("\\n"),
            '\r' => o.push_str("\\r"),
            '\t' => o.push_str("\\t"),
            c if (c as u32) < 0x20 => o.push_str(&format!("\\u{:04x}", c as u32)),
            c => o.push(c),
        }
    }
    o.push('"');
    o
}

fn expr(e: &Expr) -> String {
    match e {
        Expr::Str(s) => format!("[\"str\",{}]", esc(s)),
        Expr::Insens(s) => format!("[\"istr\",{}]", esc(s)),
        Expr::Range(a, b) => format!("[\"range\",{},{}]", esc(a), esc(b)),
        Expr::Ident(i) => format!("[\"id\",{}]", esc(i)),
        Expr::PosPred(x) => format!("[\"and\",{}]", expr(x)),
        Expr::NegPred(x) => format!("[\"not\",{}]", expr(x)),
        Expr::Seq(a, b) => format!("[\"seq\",{},{}]", expr(a), expr(b)),
        Expr::Choice(a, b) => format!("[\"choice\",{},{}]", expr(a), expr(b)),
        Expr::Opt(x) => format!("[\"opt\",{}]", expr(x)),
        Expr::Rep(x) => format!("[\"star\",{}]", expr(x)),
        Expr::RepOnce(x) => format!("[\"plus\",{}]", expr(x)),
        Expr::RepExact(x, n) => format!("[\"rep\",{},{}]", expr(x), n),
        Expr::RepMin(x, n) => format!("[\"repmin\",{},{}]", expr(x), n),
        Expr::RepMax(x, n) => format!("[\"repmax\",{},{}]", expr(x), n),
        Expr::RepMinMax(x, a, b) => format!("[\"repminmax\",{},{},{}]", expr(x), a, b),
        other => format!("[\"unsupported\",{}]", esc(&format!("{other:?}"))),
    }
}

fn main() {
    let path = std::env::args().nth(1).expect("path to .pest file");
    let src = std::fs::read_to_string(&path).expect("read grammar");
    let pairs = match parser::parse(Rule::grammar_rules, &src) {
        Ok(p) => p,
        Err(e) => {
            eprintln!("grammar does not parse: {e}");
            std::process::exit(2);
        }
    };
    let rules: Vec<AstRule> = match parser::consume_rules(pairs) {
        Ok(r) => r,
        Err(es) => {
            for e in es {
                eprintln!("{e}");
            }
            std::process::exit(2);
        }
    };
    let mut out = Vec::new();
    for r in &rules {
        let ty = match r.ty {
            RuleType::Normal => "",
            RuleType::Silent => "_",
            RuleType::Atomic => "@",
            RuleType::CompoundAtomic => "$",
            RuleType::NonAtomic => "!",
        };
        out.push(format!("{{\"name\":{},\"ty\":{},\"expr\":{}}}", esc(&r.name), esc(ty), expr(&r.expr)));
    }
    println!("[{}]", out.join(",\n"));
}
