"""PEGSMT: the DSL grammar (pest AST as printed by pest's own front end, see dump/) and the match_nodes! arms of
parser.rs, encoded as QF_BV constraints over an input of L symbolic bytes plus a symbolic length.

For every sub-expression e and every start position i a tuple (end, klen, kcode, ok):
  end   8-bit position after the match, 255 = no match
  klen  number of child nodes produced (4 bits), kcode their rule ids packed 5 bits each
  ok    every node inside satisfied one of its match_nodes! arms (pest_consume) - else a consume-time error
Mirrored pest semantics: implicit WHITESPACE* (COMMENT WHITESPACE*)* between the elements of non-atomic sequences and
repetitions, NOT undone when a following optional fails; atomic (@) rules; ^"..." ASCII-case-insensitive literals;
positive / negative look-ahead; silent (_) rules; a non-silent COMMENT becoming a child of the innermost open rule.
The grammar is non-recursive; repetitions are solved by backward DP over positions, so the encoding is exact up to L."""
import json
import re
import subprocess

from z3 import And, BitVec, BitVecVal, BoolVal, If, Not, Or, UGE, UGT, ULE, ULT, ZeroExt

PW = 8
FAILV = 255


class Unsupported(Exception):
    pass


def PV(x):
    return BitVecVal(x, PW)


def KL(x):
    return BitVecVal(x, 4)


def KC(x):
    return BitVecVal(x, 32)


T_ = BoolVal(True)


def load_grammar(repo, dump_bin):
    p = subprocess.run([dump_bin, f"{repo}/crates/cgt-core/src/parser.pest"], capture_output=True, text=True)
    if p.returncode != 0:
        raise Unsupported("pest front end rejected the grammar: " + p.stderr[-300:])
    rules = {}
    for r in json.loads(p.stdout):
        rules[r["name"]] = (r["ty"], tup(r["expr"]))
    return rules


def tup(e):
    if isinstance(e, list):
        if e[0] == "unsupported":
            raise Unsupported("grammar construct not modelled: " + str(e[1])[:80])
        return tuple(tup(x) for x in e)
    return e


def iso_codes():
    """the ISO-4217 codes iso_currency knows (Currency::from_code), from the crate's own data file"""
    import glob
    f = sorted(glob.glob("/root/.cargo/registry/src/*/iso_currency-*/isodata.tsv"))
    codes = []
    if f:
        for i, line in enumerate(open(f[-1], encoding="utf-8")):
            c = line.split("\t")[0].strip()
            if i and len(c) == 3 and c.isalpha():
                codes.append(c.upper())
    if not codes:
        raise Unsupported("iso_currency data file not found")
    return codes


def load_arms(repo):
    """match_nodes! arms of parser.rs: rule name -> list of child-rule sequences that are accepted"""
    src = open(f"{repo}/crates/cgt-core/src/parser.rs").read()
    arms = {}
    for m in re.finditer(r"fn (\w+)\(input: Node\)[^{]*\{(.*?)\n    \}", src, re.S):
        name, body = m.group(1), m.group(2)
        if "match_nodes!" not in body:
            continue
        pats = re.findall(r"\n\s*\[([^\]]*)\]\s*=>", body)
        arms[name] = [[re.match(r"\s*(\w+)", x).group(1) for x in p.split("),") if x.strip()] for p in pats]
    return arms


class Enc:
    def __init__(s, rules, arms, L, tag):
        s.rules, s.arms, s.L, s.tag = rules, arms, L, tag
        s.c = [BitVec(f"{tag}c{i}", 8) for i in range(L)]
        s.n = BitVec(f"{tag}n", PW)
        s.cons = [ULE(s.n, L)] + [ULT(x, 128) for x in s.c]
        s.rid = {r: k + 1 for k, r in enumerate(rules)}
        s.rid["EOI"] = len(s.rid) + 1
        if len(s.rid) + 1 >= 32:
            raise Unsupported("more than 30 grammar rules: child codes do not fit 5 bits")
        s.memo = {}
        s._skip = None
        s.FAIL = (PV(FAILV), KL(0), KC(0), T_)
        s.comment_silent = rules.get("COMMENT", ("_", None))[0] == "_"
        # semantic action of the `currency_code` node (parser.rs): upper-cased text must be a code iso_currency knows
        s.iso = {}
        for c in iso_codes():
            s.iso.setdefault(c[0], {}).setdefault(c[1], []).append(c[2])

    def iso_ok(s, i):
        if i + 3 > s.L:
            return BoolVal(False)
        def up(c):
            return If(And(UGE(c, 97), ULE(c, 122)), c - 32, c)
        a, b, d = up(s.c[i]), up(s.c[i + 1]), up(s.c[i + 2])
        # membership as a three-level decision structure on the letters (no arithmetic on the key)
        alts = []
        for x, m in s.iso.items():
            inner = [And(b == ord(y), Or([d == ord(z) for z in zs])) for y, zs in m.items()]
            alts.append(And(a == ord(x), Or(inner)))
        return Or(alts)

    def ok(s, e):
        return e != FAILV

    def sel(s, T, idx, lo=0):
        out = list(s.FAIL)
        for i in range(s.L, lo - 1, -1):
            cnd = idx == i
            out = [If(cnd, T[i][k], out[k]) for k in range(4)]
        return tuple(out)

    def seli(s, arr, idx, lo):
        out = PV(FAILV)
        for i in range(s.L, lo - 1, -1):
            out = If(idx == i, arr[i], out)
        return out

    def concat(s, a, b):
        la, ca, lb, cb = a[1], a[2], b[1], b[2]
        sh = ZeroExt(28, lb) * 5
        return (la + lb, (ca << sh) | cb)

    def then(s, first, T2):
        r2 = s.sel(T2, first[0])
        l, c = s.concat(first, r2)
        return (If(s.ok(first[0]), r2[0], PV(FAILV)), l, c, And(first[3], r2[3]))

    def charclass(s, pred):
        T = []
        for i in range(s.L + 1):
            if i < s.L:
                T.append((If(And(UGT(s.n, i), pred(s.c[i])), PV(i + 1), PV(FAILV)), KL(0), KC(0), T_))
            else:
                T.append(s.FAIL)
        return T

    def skip(s):
        """hidden::skip of a non-atomic rule: WHITESPACE* (COMMENT WHITESPACE*)*"""
        if s._skip is not None:
            return s._skip
        L = s.L
        wsT = s.table(("id", "WHITESPACE"), True) if "WHITESPACE" in s.rules else None
        cmT = s.table(s.rules["COMMENT"][1], True) if "COMMENT" in s.rules else None
        W = [None] * (L + 1)
        for i in range(L, -1, -1):
            if i == L or wsT is None:
                W[i] = PV(i)
                continue
            e = wsT[i][0]
            W[i] = If(s.ok(e), s.seli(W, e, i + 1), PV(i))
        S2 = [None] * (L + 1)
        NC = [None] * (L + 1)
        for p in range(L, -1, -1):
            if p == L or cmT is None:
                S2[p] = PV(p)
                NC[p] = KL(0)
                continue
            e = cmT[p][0]
            w = s.seli(W, e, p + 1)
            # a COMMENT that consumes nothing would loop: pest's repeat stops when no progress is made
            prog = And(s.ok(e), UGT(e, p))
            S2[p] = If(prog, s.seli(S2, w, p + 1), PV(p))
            nxt = KL(0)
            for i in range(L, p, -1):
                nxt = If(w == i, NC[i], nxt)
            NC[p] = If(prog, If(nxt == 15, nxt, nxt + 1), KL(0))
        T = []
        cid = s.rid.get("COMMENT", 0)
        for i in range(L + 1):
            end = s.seli(S2, W[i], i)
            if s.comment_silent:
                T.append((end, KL(0), KC(0), T_))
                continue
            nc = KL(0)
            for j in range(L, i - 1, -1):
                nc = If(W[i] == j, NC[j], nc)
            code = If(nc == 0, KC(0), If(nc == 1, KC(cid), KC(cid * 32 + cid)))
            T.append((end, If(UGT(nc, 2), KL(2), nc), code, ULE(nc, 2)))
        s._skip = T
        return T

    def table(s, e, atomic):
        key = (repr(e), atomic)
        if key not in s.memo:
            s.memo[key] = s._table(e, atomic)
        return s.memo[key]

    def _table(s, e, atomic):
        L = s.L
        k = e[0]
        if k in ("str", "istr"):
            st = e[1]
            T = []
            for i in range(L + 1):
                if i + len(st) > L:
                    T.append(s.FAIL)
                    continue
                conds = [UGE(s.n, i + len(st))]
                for j, ch in enumerate(st):
                    if ord(ch) >= 128:
                        raise Unsupported("non-ASCII literal in the grammar")
                    if k == "istr" and ch.isalpha():
                        conds.append(Or(s.c[i + j] == ord(ch.upper()), s.c[i + j] == ord(ch.lower())))
                    else:
                        conds.append(s.c[i + j] == ord(ch))
                T.append((If(And(conds), PV(i + len(st)), PV(FAILV)), KL(0), KC(0), T_))
            return T
        if k == "range":
            lo, hi = ord(e[1]), ord(e[2])
            return s.charclass(lambda c: And(UGE(c, lo), ULE(c, hi)))
        if k == "id":
            name = e[1]
            dig = lambda c: And(UGE(c, 48), ULE(c, 57))
            alp = lambda c: Or(And(UGE(c, 65), ULE(c, 90)), And(UGE(c, 97), ULE(c, 122)))
            if name not in s.rules:
                if name == "ASCII_DIGIT":
                    return s.charclass(dig)
                if name == "ASCII_ALPHA":
                    return s.charclass(alp)
                if name == "ASCII_ALPHANUMERIC":
                    return s.charclass(lambda c: Or(dig(c), alp(c)))
                if name == "ASCII_ALPHA_UPPER":
                    return s.charclass(lambda c: And(UGE(c, 65), ULE(c, 90)))
                if name == "ASCII_ALPHA_LOWER":
                    return s.charclass(lambda c: And(UGE(c, 97), ULE(c, 122)))
                if name == "ANY":
                    return s.charclass(lambda c: T_)
                if name == "SOI":
                    return [(PV(0) if i == 0 else PV(FAILV), KL(0), KC(0), T_) for i in range(L + 1)]
                if name == "EOI":
                    return [(If(s.n == i, PV(i), PV(FAILV)), KL(0) if atomic else KL(1), KC(0) if atomic else KC(s.rid["EOI"]), T_) for i in range(L + 1)]
                if name == "NEWLINE":
                    return s.table(("choice", ("choice", ("str", "\n"), ("str", "\r\n")), ("str", "\r")), True)
                raise Unsupported(f"built-in rule {name}")
            mod, body = s.rules[name]
            inner_atomic = True if mod in ("@", "$") else (False if mod == "!" else atomic)
            if mod == "$":
                raise Unsupported("compound-atomic rule")
            Tb = s.table(body, inner_atomic)
            if atomic:
                return [(t[0], KL(0), KC(0), t[3]) for t in Tb]
            if mod == "_":
                return Tb
            arms = s.arms.get(name)
            T = []
            for i in range(L + 1):
                end, kl, kc, ok = Tb[i]
                if arms is None:
                    valid = T_
                else:
                    alts = []
                    for arm in arms:
                        code = 0
                        for r in arm:
                            if r not in s.rid:
                                code = None
                                break
                            code = code * 32 + s.rid[r]
                        if code is not None and len(arm) <= 6:
                            alts.append(And(kl == len(arm), kc == code))
                    valid = Or(alts) if alts else BoolVal(False)
                kids_ok = ok if mod != "@" else T_
                if name == "currency_code":
                    valid = And(valid, s.iso_ok(i))
                T.append((end, KL(1), KC(s.rid[name]), And(kids_ok, valid)))
            return T
        if k == "seq":
            Ta = s.table(e[1], atomic)
            Tb = s.table(e[2], atomic)
            T = []
            if atomic:
                for i in range(L + 1):
                    T.append(s.then(Ta[i], Tb))
            else:
                Sk = s.skip()
                for i in range(L + 1):
                    T.append(s.then(s.then(Ta[i], Sk), Tb))
            return T
        if k == "choice":
            Ta = s.table(e[1], atomic)
            Tb = s.table(e[2], atomic)
            return [tuple(If(s.ok(Ta[i][0]), Ta[i][j], Tb[i][j]) for j in range(4)) for i in range(L + 1)]
        if k == "opt":
            Ta = s.table(e[1], atomic)
            return [(If(s.ok(Ta[i][0]), Ta[i][0], PV(i)), If(s.ok(Ta[i][0]), Ta[i][1], KL(0)), If(s.ok(Ta[i][0]), Ta[i][2], KC(0)), If(s.ok(Ta[i][0]), Ta[i][3], T_)) for i in range(L + 1)]
        if k == "not":
            Ta = s.table(e[1], atomic)
            return [(If(s.ok(Ta[i][0]), PV(FAILV), PV(i)), KL(0), KC(0), T_) for i in range(L + 1)]
        if k == "and":
            Ta = s.table(e[1], atomic)
            return [(If(s.ok(Ta[i][0]), PV(i), PV(FAILV)), KL(0), KC(0), T_) for i in range(L + 1)]
        if k == "rep":
            cur = e[1]
            for _ in range(int(e[2]) - 1):
                cur = ("seq", cur, e[1])
            return s.table(cur, atomic)
        if k in ("star", "plus"):
            Ta = s.table(e[1], atomic)
            G = [None] * (L + 1)
            Sk = None if atomic else s.skip()
            for i in range(L, -1, -1):
                if i == L:
                    # at the end of input one more (empty) iteration cannot make progress
                    G[i] = (PV(i), KL(0), KC(0), T_)
                    continue
                if atomic:
                    nxt = Ta[i]
                else:
                    mid = Sk[i]
                    r = s.sel(Ta, mid[0], i)
                    l, c = s.concat(mid, r)
                    nxt = (If(s.ok(mid[0]), r[0], PV(FAILV)), l, c, And(mid[3], r[3]))
                cont = s.sel(G, nxt[0], i + 1)
                l2, c2 = s.concat(nxt, cont)
                good = And(s.ok(nxt[0]), UGT(nxt[0], i))
                G[i] = (If(good, cont[0], PV(i)), If(good, l2, KL(0)), If(good, c2, KC(0)), If(good, And(nxt[3], cont[3]), T_))
            T = []
            for i in range(L + 1):
                a = Ta[i]
                cont = s.sel(G, a[0])
                l, c = s.concat(a, cont)
                g = s.ok(a[0])
                if k == "star":
                    T.append((If(g, cont[0], PV(i)), If(g, l, KL(0)), If(g, c, KC(0)), If(g, And(a[3], cont[3]), T_)))
                else:
                    T.append((If(g, cont[0], PV(FAILV)), l, c, And(a[3], cont[3])))
            return T
        raise Unsupported(f"expression kind {k}")


def top(enc, start="transaction_list"):
    """(accepted, child count, child codes) of the whole input"""
    mod, body = enc.rules[start]
    end, kl, kc, ok = enc.table(body, False)[0]
    return And(end != FAILV, ok), kl, kc


def fix_string(enc, text):
    return [enc.n == len(text)] + [enc.c[i] == ord(ch) for i, ch in enumerate(text)]
