"""PEGSMT obligations for C13, one worker process per command keyword.
usage: run.py worker <repo> <dump_bin> <L> <keyword> <out.json> [timeout_s]"""
import json
import sys
import time

from z3 import And, BitVec, BitVecVal, If, Not, Or, Solver, SolverFor, UGE, UGT, ULE, ULT, sat, unsat

sys.path.insert(0, "/verif/pegsmt")
import encoder as E  # noqa: E402

DATE = "2024-01-01 "


def string_of(m, enc):
    n = m.eval(enc.n, True).as_long()
    return "".join(chr(m.eval(enc.c[i], True).as_long()) for i in range(min(n, enc.L)))


def worker(repo, dump_bin, L, kw, out, timeout_s, part="0/1", only=""):
    t0 = time.time()
    res = {"keyword": kw, "L": L, "obligations": [], "encode_s": None}
    try:
        rules = E.load_grammar(repo, dump_bin)
        arms = E.load_arms(repo)
        A = E.Enc(rules, arms, L, "a")
        B = E.Enc(rules, arms, L, "b")
        accA, klA, kcA = E.top(A)
        accB, klB, kcB = E.top(B)
    except E.Unsupported as e:
        res["unsupported"] = str(e)
        json.dump(res, open(out, "w"))
        return
    res["encode_s"] = round(time.time() - t0, 1)
    same_kids = And(klA == klB, kcA == kcB)
    base = A.cons + B.cons
    # A = one logical line: the fixed date, the keyword in any case, a blank, then symbolic bytes; no line break, no '#'
    pre = []
    for i, ch in enumerate(DATE):
        pre.append(A.c[i] == ord(ch))
    for j, ch in enumerate(kw):
        i = len(DATE) + j
        pre.append(Or(A.c[i] == ord(ch.upper()), A.c[i] == ord(ch.lower())))
    pre.append(Or(A.c[len(DATE) + len(kw)] == 32, A.c[len(DATE) + len(kw)] == 9))
    pre.append(UGT(A.n, len(DATE) + len(kw)))
    oneline = [And(A.c[i] != 10, A.c[i] != 13, A.c[i] != 35) for i in range(L)]

    def rel_append(suffix_syms):
        """B = A followed by the given (possibly symbolic) bytes"""
        k = len(suffix_syms)
        cs = [ULE(A.n, L - k), B.n == A.n + k]
        for i in range(L):
            e = True
            for j in range(k - 1, -1, -1):
                e = If(A.n + j == i, B.c[i] == suffix_syms[j], e)
            cs.append(If(UGT(A.n, i), B.c[i] == A.c[i], e))
        return cs

    def rel_prepend(prefix_syms):
        k = len(prefix_syms)
        cs = [ULE(A.n, L - k), B.n == A.n + k]
        for i in range(L):
            if i < k:
                cs.append(B.c[i] == prefix_syms[i])
            else:
                cs.append(If(UGT(A.n, i - k), B.c[i] == A.c[i - k], True))
        return cs

    x = BitVec("x", 8)  # a free comment byte
    nl = BitVec("nl", 8)
    p = BitVec("p", 8)
    obs = []
    # O1 trailing comment after any complete transaction
    obs.append(("trailing-comment", rel_append([BitVecVal(32, 8), BitVecVal(35, 8), x]) + [ULT(x, 128), x != 10, x != 13, accA], Not(And(accB, same_kids))))
    # O2 one more blank (space or tab) where there already is one
    ws = BitVec("ws", 8)
    c2 = [ULE(A.n, L - 1), ULT(p, A.n), Or(ws == 32, ws == 9), B.n == A.n + 1, accA]
    c2.append(Or([And(p == i, Or(A.c[i] == 32, A.c[i] == 9)) for i in range(L)]))
    for i in range(L):
        c2.append(If(ULT(BitVecVal(i, 8), p), B.c[i] == A.c[i], If(p == i, B.c[i] == ws, If(ULE(BitVecVal(i, 8), A.n), B.c[i] == (A.c[i - 1] if i > 0 else A.c[0]), True))))
    obs.append(("extra-blank", c2, Not(And(accB, same_kids))))
    # O3 letter case: B = A with every lower-case letter upper-cased (keywords, currency codes, tickers)
    c3 = [B.n == A.n]
    for i in range(L):
        low = And(UGE(A.c[i], 97), ULE(A.c[i], 122))
        c3.append(B.c[i] == If(low, A.c[i] - 32, A.c[i]))
    obs.append(("letter-case", c3, Not(And(accA == accB, Or(Not(accA), same_kids)))))
    # O4 line ending: LF / CR / CRLF after the line
    obs.append(("final-newline", rel_append([nl]) + [Or(nl == 10, nl == 13), accA], Not(And(accB, same_kids))))
    obs.append(("final-crlf", rel_append([BitVecVal(13, 8), BitVecVal(10, 8)]) + [accA], Not(And(accB, same_kids))))
    # O5 a full-line comment before the line, ended by LF or CR
    obs.append(("comment-line-before", rel_prepend([BitVecVal(35, 8), x, nl]) + [ULT(x, 128), x != 10, x != 13, Or(nl == 10, nl == 13), accA], Not(And(accB, same_kids))))
    # O6 a blank line before / after
    obs.append(("blank-line-before", rel_prepend([nl]) + [Or(nl == 10, nl == 13), accA], Not(And(accB, same_kids))))
    pi, pn = (int(x) for x in part.split("/"))
    # O7 a stray token after a complete transaction is an error, never silently skipped: A + " @" is rejected
    obs.append(("stray-token-rejected", rel_append([BitVecVal(32, 8), BitVecVal(64, 8)]) + [accA], accB))
    # O8 a trailing comment that touches the last token (no blank before '#')
    obs.append(("trailing-comment-touching", rel_append([BitVecVal(35, 8), x]) + [ULT(x, 128), x != 10, x != 13, accA], Not(And(accB, same_kids))))
    # vacuity: some accepted A exists for this keyword within L
    s = SolverFor("QF_BV")
    s.set("timeout", int(timeout_s * 1000))
    s.add(base + pre + oneline + [accA])
    t1 = time.time()
    r = s.check()
    res["reachable"] = {"verdict": str(r), "s": round(time.time() - t1, 1), "example": string_of(s.model(), A) if r == sat else None}
    # a handful of DIVERSE accepted lines chosen by the solver (each new one must differ from the previous ones in length or in
    # the class of some byte): the driver pushes them and their lexical variants through the REAL parser and compares the parsed
    # transactions field by field (checks the assumption that acceptance + node sequence stand for "what is parsed")
    examples = []
    if r == sat and pi == 0:
        def cls(c):
            return If(And(UGE(c, 48), ULE(c, 57)), BitVecVal(0, 8), If(Or(And(UGE(c, 65), ULE(c, 90)), And(UGE(c, 97), ULE(c, 122))), BitVecVal(1, 8), If(Or(c == 32, c == 9), BitVecVal(2, 8), BitVecVal(3, 8))))
        s.set("timeout", 20000)
        for _ in range(8):
            m = s.model()
            ex = string_of(m, A)
            examples.append(ex)
            n0 = len(ex)
            diff = [A.n != n0] + [cls(A.c[i]) != m.eval(cls(A.c[i]), True) for i in range(len(DATE) + len(kw) + 1, min(n0, L))]
            s.add(Or(diff))
            if s.check() != sat:
                break
    res["examples"] = examples
    res["part"] = part
    res["planned"] = len([1 for j in range(len(obs)) if j % pn == pi and (not only or obs[j][0] in only.split(","))])
    for j, (name, cs, negprop) in enumerate(obs):
        if j % pn != pi or (only and name not in only.split(",")):
            continue
        s = SolverFor("QF_BV")
        s.set("timeout", int(timeout_s * 1000))
        s.add(base + pre + oneline + cs + [negprop])
        t1 = time.time()
        r = s.check()
        o = {"name": name, "verdict": str(r), "s": round(time.time() - t1, 1)}
        if r == sat:
            m = s.model()
            o["a"] = string_of(m, A)
            o["b"] = string_of(m, B)
        res["obligations"].append(o)
        json.dump(res, open(out, "w"))
    res["total_s"] = round(time.time() - t0, 1)
    json.dump(res, open(out, "w"))


def corpus(repo, dump_bin, L, texts, out):
    """acceptance and child codes of concrete strings by the encoding (validation against the real parser)"""
    rules = E.load_grammar(repo, dump_bin)
    arms = E.load_arms(repo)
    A = E.Enc(rules, arms, L, "a")
    acc, kl, kc = E.top(A)
    rid_tx = A.rid.get("transaction")
    res = []
    for t in texts:
        if len(t) > L or any(ord(ch) >= 128 for ch in t):
            res.append(None)
            continue
        s = Solver()
        s.add(A.cons + E.fix_string(A, t))
        s.push()
        s.add(acc)
        r = s.check()
        n_tx = None
        if r == sat:
            m = s.model()
            code = m.eval(kc, True).as_long()
            klen = m.eval(kl, True).as_long()
            kids = [(code >> (5 * i)) & 31 for i in range(klen)]
            n_tx = sum(1 for k in kids if k == rid_tx)
        res.append({"accepted": r == sat, "transactions": n_tx})
    json.dump(res, open(out, "w"))


def freetext(repo, dump_bin, K, bmap, out, timeout_s):
    """C18 free text: is there a field content of <= K bytes (each < 0x80) such that the comment line the converter emits
    for it - '# (' + map(content) + ')' - followed by a line break and a valid transaction line is NOT parsed as exactly
    that one transaction? `bmap[b]` is the byte the converter turns byte b into (measured on the real converter)."""
    t0 = time.time()
    tail = "2024-01-01 SPLIT A RATIO 2"
    pre, post = "# (", ")\n"
    L = len(pre) + K + len(post) + len(tail)
    res = {"K": K, "L": L}
    try:
        rules = E.load_grammar(repo, dump_bin)
        arms = E.load_arms(repo)
        B = E.Enc(rules, arms, L, "b")
        acc, kl, kc = E.top(B)
        R = E.Enc(rules, arms, len(tail), "r")
        accR, klR, kcR = E.top(R)
    except E.Unsupported as e:
        res["unsupported"] = str(e)
        json.dump(res, open(out, "w"))
        return
    res["encode_s"] = round(time.time() - t0, 1)
    k = BitVec("k", 8)  # content length
    content = [BitVec(f"t{i}", 8) for i in range(K)]

    def mapped(c):
        e = c
        for b, img in enumerate(bmap):
            if img != b:
                e = If(c == b, BitVecVal(img, 8), e)
        return e

    cs = B.cons + R.cons + E.fix_string(R, tail) + [ULE(k, K)] + [ULT(c, 128) for c in content]
    cs.append(B.n == k + (len(pre) + len(post) + len(tail)))
    for i in range(L):
        if i < len(pre):
            cs.append(B.c[i] == ord(pre[i]))
            continue
        j = i - len(pre)
        # position j within content (j < k), else the fixed suffix post+tail shifted by k
        e = True
        suffix = post + tail
        for off in range(len(suffix) - 1, -1, -1):
            e = If(k + off == j, B.c[i] == ord(suffix[off]), e)
        if j < K:
            cs.append(If(UGT(k, j), B.c[i] == mapped(content[j]), e))
        else:
            cs.append(e)
    s = SolverFor("QF_BV")
    s.set("timeout", int(timeout_s * 1000))
    s.add(cs)
    s.add(Not(And(acc, accR, kl == klR, kc == kcR)))
    t1 = time.time()
    r = s.check()
    res["verdict"] = str(r)
    res["s"] = round(time.time() - t1, 1)
    if r == sat:
        m = s.model()
        n = m.eval(k, True).as_long()
        res["content"] = [m.eval(content[i], True).as_long() for i in range(n)]
    # vacuity: the reference line itself is accepted
    s2 = SolverFor("QF_BV")
    s2.add(R.cons + E.fix_string(R, tail) + [accR])
    res["reference_accepted"] = str(s2.check())
    json.dump(res, open(out, "w"))


if __name__ == "__main__":
    if sys.argv[1] == "worker":
        worker(sys.argv[2], sys.argv[3], int(sys.argv[4]), sys.argv[5], sys.argv[6], float(sys.argv[7]) if len(sys.argv) > 7 else 300, sys.argv[8] if len(sys.argv) > 8 else "0/1", sys.argv[9] if len(sys.argv) > 9 else "")
    elif sys.argv[1] == "freetext":
        freetext(sys.argv[2], sys.argv[3], int(sys.argv[4]), json.load(open(sys.argv[5])), sys.argv[6], float(sys.argv[7]) if len(sys.argv) > 7 else 600)
    elif sys.argv[1] == "corpus":
        corpus(sys.argv[2], sys.argv[3], int(sys.argv[4]), json.load(open(sys.argv[5])), sys.argv[6])
