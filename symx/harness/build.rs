//! Extracts, on every build, the source text of two small file-reading helpers of the CLI binary crate
//! (which cannot be linked as a library) so that the REAL code is compiled into the harness:
//!   read_and_concatenate_files (C06 file split), read_fx_folder (C08 rate folder).
//! If a function is no longer found (refactor) a stub returning None is generated and the sub-claim is
//! reported as not covered.
use std::fs;
use std::path::Path;

fn extract(src: &str, name: &str) -> Option<String> {
    let start = src.find(&format!("fn {name}("))?;
    let open = start + src[start..].find('{')?;
    let mut depth = 0usize;
    for (i, c) in src[open..].char_indices() {
        match c {
            '{' => depth += 1,
            '}' => {
                depth -= 1;
                if depth == 0 {
                    return Some(src[start..open + i + 1].to_string());
                }
            }
            _ => {}
        }
    }
    None
}

fn main() {
    let path = "/repo/crates/cgt-cli/src/main.rs";
    println!("cargo:rerun-if-changed={path}");
    println!("cargo:rerun-if-changed=build.rs");
    println!("cargo:rustc-env=VERIF_REPO_ROOT={}", "/repo/");
    let src = fs::read_to_string(path).unwrap_or_default();
    let mut out = String::from("use anyhow::{Result, bail};\nuse std::fs;\nuse cgt_money::RateFile;\n");
    match extract(&src, "read_and_concatenate_files") {
        Some(f) => {
            out.push_str(&f);
            out.push_str("\npub fn concat(files: &[std::path::PathBuf]) -> Option<String> { read_and_concatenate_files(files).ok() }\n");
        }
        None => out.push_str("pub fn concat(_files: &[std::path::PathBuf]) -> Option<String> { None }\n"),
    }
    match extract(&src, "read_fx_folder") {
        Some(f) => {
            out.push_str(&f);
            out.push_str("\npub fn fx_folder(p: &std::path::Path) -> Option<Vec<RateFile>> { read_fx_folder(p).ok() }\n");
        }
        None => out.push_str("pub fn fx_folder(_p: &std::path::Path) -> Option<Vec<RateFile>> { None }\n"),
    }
    let dest = Path::new(&std::env::var("OUT_DIR").unwrap()).join("cli_extract.rs");
    fs::write(dest, out).unwrap();

    // the MCP tool's own tax-year derivation: `let year = if <test on date> { .. } else { .. };`
    let mpath = "/repo/crates/cgt-mcp/src/server.rs";
    println!("cargo:rerun-if-changed={mpath}");
    let msrc = fs::read_to_string(mpath).unwrap_or_default();
    let mut mout = String::new();
    let stmt = msrc.find("let year = if ").and_then(|i| msrc[i..].find(";").map(|j| msrc[i..i + j + 1].to_string()));
    match stmt {
        Some(st) if st.contains("date.") && st.len() < 400 => {
            mout.push_str("pub fn mcp_year(date: chrono::NaiveDate) -> Option<i32> {\n    ");
            mout.push_str(&st);
            mout.push_str("\n    Some(year as i32)\n}\n");
        }
        _ => mout.push_str("pub fn mcp_year(_date: chrono::NaiveDate) -> Option<i32> { None }\n"),
    }
    fs::write(Path::new(&std::env::var("OUT_DIR").unwrap()).join("mcp_extract.rs"), mout).unwrap();

    // ---- the MCP server's tool handlers (crate cgt-mcp keeps `mod server` private and the handlers are private async
    // methods): the current text of error.rs / resources.rs / server.rs is compiled into the harness as module `mcpgen`
    // (inner doc comments and the #[cfg(test)] module removed, `crate::` re-rooted), with a small entry module appended
    // INSIDE `server` so that the private handlers can be called. Only used with feature "mcp".
    let out_dir = std::env::var("OUT_DIR").unwrap();
    let mdir = "/repo/crates/cgt-mcp/src";
    let strip = |name: &str| -> Option<String> {
        let path = format!("{mdir}/{name}");
        println!("cargo:rerun-if-changed={path}");
        let t = fs::read_to_string(&path).ok()?;
        let t = match t.find("#[cfg(test)]\nmod tests") {
            Some(i) => t[..i].to_string(),
            None => t,
        };
        let t: String = t.lines().filter(|l| !l.trim_start().starts_with("//!")).collect::<Vec<_>>().join("\n");
        // include_str!/include_bytes! paths are relative to the original file
        let t = t.replace("include_str!(\"", &format!("include_str!(\"{mdir}/")).replace("include_bytes!(\"", &format!("include_bytes!(\"{mdir}/"));
        Some(t.replace("crate::", "crate::mcpgen::"))
    };
    let gen_mcp = match (strip("error.rs"), strip("resources.rs"), strip("server.rs")) {
        (Some(e), Some(r), Some(sv)) => format!(
            "pub const AVAILABLE: bool = true;\npub mod error {{\n{e}\n}}\npub use error::McpServerError;\npub mod resources {{\n{r}\n}}\npub mod server {{\n{sv}\n{ENTRY}\n}}\n"
        ),
        _ => "pub const AVAILABLE: bool = false;\n".to_string(),
    };
    fs::write(Path::new(&out_dir).join("mcp_gen.rs"), gen_mcp).unwrap();
}

/// Appended inside the copied `server` module: constructs a server the way the crate's own tests do and drives each tool
/// handler to completion (the handlers contain no await point: one poll with a no-op waker must return Ready; Pending is
/// reported as None = not covered).
const ENTRY: &str = r#"
pub mod verif_entry {
    use super::*;
    use std::future::Future;
    use std::pin::pin;
    use std::sync::Arc;
    use std::task::{Context, Poll, Wake, Waker};

    struct Noop;
    impl Wake for Noop {
        fn wake(self: Arc<Self>) {}
    }
    fn once<F: Future>(f: F) -> Option<F::Output> {
        let w = Waker::from(Arc::new(Noop));
        let mut cx = Context::from_waker(&w);
        let mut f = pin!(f);
        for _ in 0..4 {
            if let Poll::Ready(v) = f.as_mut().poll(&mut cx) {
                return Some(v);
            }
        }
        None
    }
    /// Ok(text of the single text content) | Err(error message)
    pub type Reply = Result<String, String>;
    fn reply(r: Result<CallToolResult, McpError>) -> Reply {
        match r {
            Ok(res) => {
                let mut texts = Vec::new();
                for c in &res.content {
                    if let RawContent::Text(t) = &c.raw {
                        texts.push(t.text.clone());
                    }
                }
                if texts.len() == 1 && res.content.len() == 1 { Ok(texts.remove(0)) } else { Err(format!("VERIF: {} content items, {} of them text", res.content.len(), texts.len())) }
            }
            Err(e) => Err(e.message.to_string()),
        }
    }
    pub fn server(fx: Option<FxCache>, config: cgt_core::Config) -> CgtServer {
        CgtServer { fx_cache: fx, config, tool_router: CgtServer::tool_router() }
    }
    pub fn parse_transactions(s: &CgtServer, transactions: &str) -> Option<Reply> {
        once(s.parse_transactions(Parameters(ParseTransactionsRequest { transactions: transactions.to_string() }))).map(reply)
    }
    pub fn calculate_report(s: &CgtServer, transactions: &str, year: Option<i32>) -> Option<Reply> {
        once(s.calculate_report(Parameters(CalculateReportRequest { transactions: transactions.to_string(), year }))).map(reply)
    }
    pub fn explain_matching(s: &CgtServer, transactions: &str, date: &str, ticker: &str) -> Option<Reply> {
        once(s.explain_matching(Parameters(ExplainMatchingRequest { transactions: transactions.to_string(), disposal_date: date.to_string(), ticker: ticker.to_string() }))).map(reply)
    }
    pub fn convert_to_dsl(s: &CgtServer, transactions: &str) -> Option<Reply> {
        once(s.convert_to_dsl(Parameters(ConvertToDslRequest { transactions: transactions.to_string() }))).map(reply)
    }
    pub fn get_fx_rate(s: &CgtServer, currency: &str, year: i32, month: u32) -> Option<Reply> {
        once(s.get_fx_rate(Parameters(GetFxRateRequest { currency: currency.to_string(), year, month }))).map(reply)
    }
}
"#;
