//! Extracts, on every build, the source text of two small file-reading helpers of the CLI binary crate
//! (which cannot be linked as a library) so that the REAL code is compiled into the harness:
//!   read_and_concatenate_files (C06 file split), read_fx_folder (C08 rate folder).
//! If a function is no longer found (refactor) a stub returning None is generated and the sub-claim is
//! reported as not covered.
use std::fs;
use std::path::Path;

fn extract(src: &str, name: &str) -> Option<String> {
    let start = src.find(&format!("fn {name}("))?;
    let open = start + src[start..].find('{')?;
    let mut depth = 0usize;
    for (i, c) in src[open..].char_indices() {
        match c {
            '{' => depth += 1,
            '}' => {
                depth -= 1;
                if depth == 0 {
                    return Some(src[start..open + i + 1].to_string());
                }
            }
            _ => {}
        }
    }
    None
}

fn main() {
    let path = "/repo/crates/cgt-cli/src/main.rs";
    println!("cargo:rerun-if-changed={path}");
    println!("cargo:rerun-if-changed=build.rs");
    println!("cargo:rustc-env=VERIF_REPO_ROOT={}", "/repo/");
    let src = fs::read_to_string(path).unwrap_or_default();
    let mut out = String::from("use anyhow::{Result, bail};\nuse std::fs;\nuse cgt_money::RateFile;\n");
    match extract(&src, "read_and_concatenate_files") {
        Some(f) => {
            out.push_str(&f);
            out.push_str("\npub fn concat(files: &[std::path::PathBuf]) -> Option<String> { read_and_concatenate_files(files).ok() }\n");
        }
        None => out.push_str("pub fn concat(_files: &[std::path::PathBuf]) -> Option<String> { None }\n"),
    }
    match extract(&src, "read_fx_folder") {
        Some(f) => {
            out.push_str(&f);
            out.push_str("\npub fn fx_folder(p: &std::path::Path) -> Option<Vec<RateFile>> { read_fx_folder(p).ok() }\n");
        }
        None => out.push_str("pub fn fx_folder(_p: &std::path::Path) -> Option<Vec<RateFile>> { None }\n"),
    }
    let dest = Path::new(&std::env::var("OUT_DIR").unwrap()).join("cli_extract.rs");
    fs::write(dest, out).unwrap();

    // the MCP tool's own tax-year derivation: `let year = if <test on date> { .. } else { .. };`
    let mpath = "/repo/crates/cgt-mcp/src/server.rs";
    println!("cargo:rerun-if-changed={mpath}");
    let msrc = fs::read_to_string(mpath).unwrap_or_default();
    let mut mout = String::new();
    let stmt = msrc.find("let year = if ").and_then(|i| msrc[i..].find(";").map(|j| msrc[i..i + j + 1].to_string()));
    match stmt {
        Some(st) if st.contains("date.") && st.len() < 400 => {
            mout.push_str("pub fn mcp_year(date: chrono::NaiveDate) -> Option<i32> {\n    ");
            mout.push_str(&st);
            mout.push_str("\n    Some(year as i32)\n}\n");
        }
        _ => mout.push_str("pub fn mcp_year(_date: chrono::NaiveDate) -> Option<i32> { None }\n"),
    }
    fs::write(Path::new(&std::env::var("OUT_DIR").unwrap()).join("mcp_extract.rs"), mout).unwrap();
}
