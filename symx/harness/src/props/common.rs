//! Shared helpers: running `calculate`, flattening a TaxReport into legs, signatures.

use crate::ledger::{Line, Skeleton};
use cgt_core::{CgtError, Config, MatchRule, TaxReport, Transaction};
use chrono::NaiveDate;
use rust_decimal::Decimal;
use serde_json::{Value, json};
use std::collections::BTreeMap;

#[derive(Clone, Debug)]
pub struct ILeg {
    pub ticker: String,
    pub sell_day: i64,
    pub rule: u8, // 0 same day, 1 30-day, 2 pool
    pub acq_day: Option<i64>,
    pub qty: Decimal,
    pub cost: Decimal,
    pub gain: Decimal,
}

#[derive(Clone, Debug)]
pub struct IDisposal {
    pub ticker: String,
    pub day: i64,
    pub year: u16,
    pub qty: Decimal,
    pub gross: Decimal,
    pub proceeds: Decimal,
    pub legs: Vec<ILeg>,
}

pub fn day_of(sk: &Skeleton, d: NaiveDate) -> i64 {
    (d - sk.base).num_days()
}

pub fn rule_code(r: &MatchRule) -> u8 {
    match r {
        MatchRule::SameDay => 0,
        MatchRule::BedAndBreakfast => 1,
        MatchRule::Section104 => 2,
    }
}

pub fn disposals(sk: &Skeleton, rep: &TaxReport) -> Vec<IDisposal> {
    let mut out = Vec::new();
    for y in &rep.tax_years {
        for d in &y.disposals {
            let day = day_of(sk, d.date);
            let legs = d
                .matches
                .iter()
                .map(|m| ILeg {
                    ticker: d.ticker.clone(),
                    sell_day: day,
                    rule: rule_code(&m.rule),
                    acq_day: m.acquisition_date.map(|a| day_of(sk, a)),
                    qty: m.quantity,
                    cost: m.allowable_cost,
                    gain: m.gain_or_loss,
                })
                .collect();
            out.push(IDisposal {
                ticker: d.ticker.clone(),
                day,
                year: y.period.start_year(),
                qty: d.quantity,
                gross: d.gross_proceeds,
                proceeds: d.proceeds,
                legs,
            });
        }
    }
    out
}

pub type LegKey = (String, i64, u8, Option<i64>);

/// legs aggregated by (ticker, disposal day, rule, acquisition day): (quantity, cost, gain, number of legs)
pub fn aggregate(ds: &[IDisposal]) -> BTreeMap<LegKey, (Decimal, Decimal, Decimal, usize)> {
    let mut m: BTreeMap<LegKey, (Decimal, Decimal, Decimal, usize)> = BTreeMap::new();
    for d in ds {
        for l in &d.legs {
            let e = m.entry((l.ticker.clone(), l.sell_day, l.rule, l.acq_day)).or_insert((Decimal::ZERO, Decimal::ZERO, Decimal::ZERO, 0));
            e.0 = e.0 + l.qty;
            e.1 = e.1 + l.cost;
            e.2 = e.2 + l.gain;
            e.3 += 1;
        }
    }
    m
}

/// structure of the outcome (no numbers): compared between the symbolic leaf and the concrete replay
pub fn signature(res: &Result<TaxReport, CgtError>, sk: &Skeleton) -> Value {
    match res {
        Ok(rep) => {
            let ds = disposals(sk, rep);
            let legs: Vec<Value> = ds
                .iter()
                .flat_map(|d| d.legs.iter().map(|l| json!([l.ticker, l.sell_day, l.rule, l.acq_day])))
                .collect();
            let years: Vec<u16> = rep.tax_years.iter().map(|y| y.period.start_year()).collect();
            let holds: Vec<String> = rep.holdings.iter().map(|h| h.ticker.clone()).collect();
            json!({"ok": true, "legs": legs, "years": years, "holdings": holds})
        }
        Err(e) => json!({"ok": false, "err": err_class(e)}),
    }
}

pub fn err_class(e: &CgtError) -> String {
    let s = e.to_string();
    if s.contains("S122") {
        "s122".into()
    } else if s.contains("exceeds holding") || s.contains("no prior acquisitions") {
        "oversell".into()
    } else if s.contains("reservation exceeds") {
        "reservation".into()
    } else if s.contains("Missing FX rate") {
        "fx".into()
    } else if s.contains("exemption") {
        "exemption".into()
    } else {
        let mut t = s;
        t.truncate(40);
        t
    }
}

/// What the matching engine reported, in one shape for both entry levels.
#[derive(Clone, Debug)]
pub struct Outcome {
    pub disposals: Vec<IDisposal>,
    /// closing holding per ticker: (quantity, cost)
    pub holdings: BTreeMap<String, (Decimal, Decimal)>,
    pub report: Option<TaxReport>,
}

/// level "matcher": transactions_to_gbp + Matcher::process (the anchors of C01-C03/C05; all of its branch
/// conditions compare quantities only); level "report": calculator::calculate (adds grouping, tax years and
/// totals, whose sign tests on gains fork three ways per disposal).
pub fn run_level(level: &str, sk: &Skeleton, txs: &[Transaction]) -> Result<Outcome, CgtError> {
    if level == "report" {
        let rep = calc(txs, None)?;
        let ds = disposals(sk, &rep);
        let holdings = rep.holdings.iter().map(|h| (h.ticker.clone(), (h.quantity, h.total_cost))).collect();
        return Ok(Outcome { disposals: ds, holdings, report: Some(rep) });
    }
    let gbp = cgt_core::transactions_to_gbp(txs, None)?;
    let mut m = cgt_core::matcher::Matcher::new();
    let (matches, pools) = m.process(gbp)?;
    let mut ds: Vec<IDisposal> = Vec::new();
    for r in &matches {
        let day = day_of(sk, r.disposal_date);
        let pos = ds.iter().position(|d| d.ticker == r.disposal_ticker && d.day == day);
        let i = match pos {
            Some(i) => i,
            None => {
                ds.push(IDisposal {
                    ticker: r.disposal_ticker.clone(),
                    day,
                    year: 0,
                    qty: Decimal::ZERO,
                    gross: Decimal::ZERO,
                    proceeds: Decimal::ZERO,
                    legs: vec![],
                });
                ds.len() - 1
            }
        };
        let d = &mut ds[i];
        d.qty = d.qty + r.match_detail.quantity;
        d.gross = d.gross + r.gross_proceeds;
        d.proceeds = d.proceeds + r.proceeds;
        d.legs.push(ILeg {
            ticker: r.disposal_ticker.clone(),
            sell_day: day,
            rule: rule_code(&r.match_detail.rule),
            acq_day: r.match_detail.acquisition_date.map(|a| day_of(sk, a)),
            qty: r.match_detail.quantity,
            cost: r.match_detail.allowable_cost,
            gain: r.match_detail.gain_or_loss,
        });
    }
    let holdings = pools.values().map(|h| (h.ticker.clone(), (h.quantity, h.total_cost))).collect();
    Ok(Outcome { disposals: ds, holdings, report: None })
}

pub fn outcome_signature(res: &Result<Outcome, CgtError>) -> Value {
    match res {
        Ok(o) => {
            let mut legs: Vec<(String, i64, u8, Option<i64>)> =
                o.disposals.iter().flat_map(|d| d.legs.iter().map(|l| (l.ticker.clone(), l.sell_day, l.rule, l.acq_day))).collect();
            legs.sort();
            let holds: Vec<&String> = o.holdings.keys().collect();
            json!({"ok": true, "legs": legs, "holdings": holds})
        }
        Err(e) => json!({"ok": false, "err": err_class(e)}),
    }
}

pub fn calc(txs: &[Transaction], year: Option<i32>) -> Result<TaxReport, CgtError> {
    let cfg = Config::embedded().expect("embedded config");
    cgt_core::calculator::calculate(txs, year, None, &cfg)
}

pub fn sum<'a>(it: impl Iterator<Item = Decimal>) -> Decimal {
    it.fold(Decimal::ZERO, |a, b| a + b)
}

pub fn has_events(lines: &[Line]) -> bool {
    use crate::ledger::Kind;
    lines.iter().any(|l| matches!(l.kind, Kind::CapReturn | Kind::Accum))
}
