//! C16 (hook build only): every traversal of a core map takes its order from a choice point, all orders are
//! explored, and the report is proved identical to the one computed with insertion order.

use super::common::*;
use crate::ledger::{self, Mode, Skeleton};
use crate::{Leaf, vx};
use cgt_core::{Config, TaxReport};
use rust_decimal::Decimal;
use serde_json::json;
use std::cell::RefCell;

thread_local! {
    static CHOSEN: RefCell<Vec<usize>> = const { RefCell::new(Vec::new()) };
}

fn perms(n: usize) -> Vec<Vec<usize>> {
    fn go(p: &mut Vec<usize>, k: usize, out: &mut Vec<Vec<usize>>) {
        if k == p.len() {
            out.push(p.clone());
            return;
        }
        for i in k..p.len() {
            p.swap(k, i);
            go(p, k + 1, out);
            p.swap(k, i);
        }
    }
    let mut out = Vec::new();
    go(&mut (0..n).collect(), 0, &mut out);
    out
}

fn hook(n: usize) -> Vec<usize> {
    if n > 4 {
        // beyond the bound: rotate only
        let k = vx::choose(n);
        CHOSEN.with(|c| c.borrow_mut().push(k));
        let mut v: Vec<usize> = (0..n).collect();
        v.rotate_left(k);
        return v;
    }
    let ps = perms(n);
    let k = vx::choose(ps.len());
    CHOSEN.with(|c| c.borrow_mut().push(k));
    ps[k].clone()
}

fn reports_identical(leaf: &mut Leaf, tag: &str, a: &TaxReport, b: &TaxReport) {
    let mut shape = String::new();
    if a.tax_years.len() != b.tax_years.len() || a.holdings.len() != b.holdings.len() {
        shape = "number of tax years / holdings differs".into();
    }
    let mut atoms = Vec::new();
    for (x, y) in a.tax_years.iter().zip(b.tax_years.iter()) {
        if x.period != y.period || x.disposals.len() != y.disposals.len() {
            shape = format!("tax year {:?} vs {:?} / disposal counts", x.period, y.period);
            continue;
        }
        atoms.push(vx::eq_l("total_gain", x.total_gain, y.total_gain));
        atoms.push(vx::eq_l("total_loss", x.total_loss, y.total_loss));
        atoms.push(vx::eq_l("net_gain", x.net_gain, y.net_gain));
        atoms.push(vx::eq_l("dividend_income", x.dividend_income, y.dividend_income));
        atoms.push(vx::eq_l("dividend_tax_paid", x.dividend_tax_paid, y.dividend_tax_paid));
        for (d, e) in x.disposals.iter().zip(y.disposals.iter()) {
            if d.date != e.date || d.ticker != e.ticker || d.matches.len() != e.matches.len() {
                shape = format!("disposal {} {} vs {} {}", d.date, d.ticker, e.date, e.ticker);
                continue;
            }
            atoms.push(vx::eq_l("disposal quantity", d.quantity, e.quantity));
            atoms.push(vx::near_l("gross", d.gross_proceeds, e.gross_proceeds, Decimal::new(1, 10)));
            atoms.push(vx::near_l("proceeds", d.proceeds, e.proceeds, Decimal::new(1, 10)));
            for (m, n) in d.matches.iter().zip(e.matches.iter()) {
                if m.rule != n.rule || m.acquisition_date != n.acquisition_date {
                    shape = format!("leg order of {} {}", d.date, d.ticker);
                }
                atoms.push(vx::eq_l("leg quantity", m.quantity, n.quantity));
                atoms.push(vx::eq_l("leg cost", m.allowable_cost, n.allowable_cost));
                atoms.push(vx::eq_l("leg gain", m.gain_or_loss, n.gain_or_loss));
            }
        }
    }
    for (h, k) in a.holdings.iter().zip(b.holdings.iter()) {
        if h.ticker != k.ticker {
            shape = format!("holding order {} vs {}", h.ticker, k.ticker);
        }
        atoms.push(vx::eq_l("holding quantity", h.quantity, k.quantity));
        atoms.push(vx::eq_l("holding cost", h.total_cost, k.total_cost));
    }
    leaf.ob_bool(&format!("{tag}.same-order"), shape.is_empty(), &shape);
    leaf.ob(&format!("{tag}.same-figures"), &vx::and(&atoms));
}

fn canonical_order(leaf: &mut Leaf, tag: &str, r: &TaxReport) {
    let years: Vec<u16> = r.tax_years.iter().map(|y| y.period.start_year()).collect();
    let mut sy = years.clone();
    sy.sort();
    leaf.ob_bool(&format!("{tag}.years-ascending"), years == sy, &format!("{years:?}"));
    let mut ok = true;
    for y in &r.tax_years {
        let k: Vec<_> = y.disposals.iter().map(|d| (d.date, d.ticker.clone())).collect();
        let mut s = k.clone();
        s.sort();
        ok &= k == s;
    }
    leaf.ob_bool(&format!("{tag}.disposals-by-date-then-ticker"), ok, "");
    let h: Vec<_> = r.holdings.iter().map(|h| h.ticker.clone()).collect();
    let mut sh = h.clone();
    sh.sort();
    leaf.ob_bool(&format!("{tag}.holdings-by-ticker"), h == sh, &format!("{h:?}"));
}

/// (date, ticker) of every line of one section of the plain-text report (`dd/mm/yyyy KIND [qty] TICKER ...`)
fn text_section_keys(text: &str, header: &str, ticker_at: usize) -> Vec<(chrono::NaiveDate, String)> {
    let mut out = Vec::new();
    let mut inside = false;
    for line in text.lines() {
        if line.starts_with("# ") {
            inside = line.trim() == header;
            continue;
        }
        if !inside || line.trim().is_empty() {
            continue;
        }
        let toks: Vec<&str> = line.split_whitespace().collect();
        if let (Some(d), Some(t)) = (toks.first().and_then(|d| chrono::NaiveDate::parse_from_str(d, "%d/%m/%Y").ok()), toks.get(ticker_at)) {
            out.push((d, t.to_string()));
        }
    }
    out
}

pub fn c16(sk: &Skeleton) -> Leaf {
    let mode = Mode::parse(&sk.opt_str("mode").unwrap_or_else(|| "QPF".into()));
    let lines = ledger::instantiate(sk, "lines", &mode);
    let txs = ledger::to_transactions(&lines);
    vx::set_choices(&sk.raw["opts"]["choices"]);
    let mut leaf = Leaf { extra: json!({"ledger": ledger::describe(&lines)}), ..Default::default() };
    let cfg = Config::embedded().expect("config");
    let filter = sk.opt_i64("year").map(|y| y as i32);
    cgt_core::verif_map::set_order_hook(None);
    let r0 = cgt_core::calculator::calculate(&txs, filter, None, &cfg);
    cgt_core::verif_map::set_order_hook(Some(hook));
    let r1 = cgt_core::calculator::calculate(&txs, filter, None, &cfg);
    cgt_core::verif_map::set_order_hook(None);
    leaf.extra["choices"] = json!(CHOSEN.with(|c| c.borrow().clone()));
    leaf.sig = signature(&r1, sk);
    match (&r0, &r1) {
        (Ok(a), Ok(b)) => {
            leaf.outcome = "ok".into();
            reports_identical(&mut leaf, "C16.any-map-order", a, b);
            canonical_order(&mut leaf, "C16", b);
            // the text report is a function of the report alone
            let (ta, tb) = (cgt_formatter_plain::format(a), cgt_formatter_plain::format(b));
            leaf.ob_bool("C16.text-line-structure", ta.lines().count() == tb.lines().count(), "plain-text reports have different numbers of lines");
            // echoed transactions and asset events of the text report: by date, then ticker
            for (section, ticker_at) in [("# TRANSACTIONS", 3usize), ("# ASSET EVENTS", 2usize)] {
                let keys = text_section_keys(&tb, section, ticker_at);
                let mut sorted = keys.clone();
                sorted.sort();
                leaf.ob_bool(&format!("C16.text-echo-by-date-then-ticker[{}]", &section[2..]), keys == sorted, &format!("{keys:?}"));
                let want = txs
                    .iter()
                    .filter(|t| {
                        let trade = matches!(t.operation, cgt_core::Operation::Buy { .. } | cgt_core::Operation::Sell { .. });
                        if ticker_at == 3 { trade } else { !trade }
                    })
                    .count();
                leaf.ob_bool(&format!("C16.text-echo-complete[{}]", &section[2..]), keys.len() == want, &format!("{} echoed lines for {want} ledger lines", keys.len()));
            }
        }
        (Err(x), Err(y)) => {
            leaf.outcome = "err".into();
            leaf.msg = x.to_string();
            leaf.ob_bool("C16.same-refusal", err_class(x) == err_class(y), &format!("{x} vs {y}"));
        }
        (a, b) => {
            leaf.outcome = "mixed".into();
            leaf.ob_bool("C16.same-acceptance", false, &format!("insertion order: {:?}; chosen order: {:?}", a.as_ref().err().map(|e| e.to_string()), b.as_ref().err().map(|e| e.to_string())));
        }
    }
    leaf
}
