//! The MCP tool handlers of crate cgt-mcp (parse_transactions, calculate_report, explain_matching, convert_to_dsl)
//! executed inside the symbolic run. cgt-mcp keeps them private, so build.rs compiles the CURRENT text of
//! crates/cgt-mcp/src/{error,resources,server}.rs into the harness (module `mcpgen`) with a small entry module appended;
//! the handlers contain no await point and are driven to completion by one poll (no runtime, no threads, so the
//! fork-on-branch exploration is unaffected). What is decided: the figures a tool shows are the computed values
//! (C17) and the tools' JSON / DSL renderings preserve every transaction (C14). Request routing, the stdio transport
//! and concurrency (C20) are not touched.
use super::text::{half_away, json_report_figures, same_transactions};
use crate::Leaf;
use crate::ledger::{self, Mode, Skeleton};
use crate::mcpgen::server::verif_entry as mcp;
use crate::vx;
use cgt_core::{Config, MatchRule, TaxReport, Transaction};
use rust_decimal::Decimal;
use serde_json::{Value, json};
use std::str::FromStr;

fn money(what: &str, v: &Value, expect: Decimal, atoms: &mut Vec<vx::B>, problems: &mut Vec<String>) {
    match v.as_str().and_then(|s| Decimal::from_str(s).ok()) {
        Some(d) => atoms.push(vx::or(&[vx::eq_l(&format!("mcp {what} in full"), d, expect), vx::eq_l(&format!("mcp {what} rounded half away from zero"), d, half_away(expect))])),
        None => problems.push(format!("mcp {what}: {v} is not a decimal string")),
    }
}
fn exact(what: &str, v: &Value, expect: Decimal, atoms: &mut Vec<vx::B>, problems: &mut Vec<String>) {
    match v.as_str().and_then(|s| Decimal::from_str(s).ok()) {
        Some(d) => atoms.push(vx::eq_l(&format!("mcp {what}"), d, expect)),
        None => problems.push(format!("mcp {what}: {v} is not a decimal string")),
    }
}

fn report_reply(leaf: &mut Leaf, tag: &str, reply: Option<mcp::Reply>, direct: &Result<TaxReport, cgt_core::CgtError>) {
    let Some(reply) = reply else {
        leaf.extra[format!("{tag}.pending")] = json!(true);
        return;
    };
    match (direct, reply) {
        (Err(_), Err(_)) => {}
        (Err(e), Ok(_)) => {
            leaf.ob_bool(&format!("{tag}.refused-like-the-library"), false, &format!("the library refuses ({e}) but the tool returns a report"));
        }
        (Ok(_), Err(m)) => {
            leaf.ob_bool(&format!("{tag}.accepted-like-the-library"), false, &format!("the library returns a report but the tool refuses: {}", m.lines().take(4).collect::<Vec<_>>().join(" / ")));
        }
        (Ok(rep), Ok(text)) => {
            let js: Value = serde_json::from_str(&text).unwrap_or(Value::Null);
            let mut atoms = Vec::new();
            let mut problems = Vec::new();
            if !js.is_object() {
                problems.push("the tool's reply is not a JSON object".to_string());
            }
            json_report_figures(&js, rep, &mut atoms, &mut problems);
            leaf.ob_bool(&format!("{tag}.structure"), problems.is_empty(), &problems.join("; "));
            leaf.ob(&format!("{tag}.figures"), &vx::and(&atoms));
        }
    }
}

/// explain_matching for every disposal of `rep` (ticker as written and in lower case): found, and every figure equals the report's
fn explain_all(leaf: &mut Leaf, server: &crate::mcpgen::server::CgtServer, input: &str, rep: &TaxReport) {
    for d in rep.tax_years.iter().flat_map(|y| y.disposals.iter()) {
        let name = format!("{} {}", d.ticker, d.date);
        for ticker in [d.ticker.clone(), d.ticker.to_lowercase()] {
            let Some(reply) = mcp::explain_matching(&server, &input, &d.date.to_string(), &ticker) else {
                leaf.extra["explain.pending"] = json!(true);
                continue;
            };
            let text = match reply {
                Ok(t) => t,
                Err(m) => {
                    leaf.ob_bool("MCP.explain-finds-the-disposal", false, &format!("{name} (asked as {ticker}): {}", m.lines().next().unwrap_or("")));
                    continue;
                }
            };
            let js: Value = serde_json::from_str(&text).unwrap_or(Value::Null);
            let mut atoms = Vec::new();
            let mut problems = Vec::new();
            if js["disposal_date"].as_str() != Some(d.date.to_string().as_str()) || js["ticker"].as_str() != Some(d.ticker.as_str()) {
                problems.push(format!("explain identity {name}: {} {}", js["disposal_date"], js["ticker"]));
            }
            exact(&format!("explain quantity {name}"), &js["quantity"], d.quantity, &mut atoms, &mut problems);
            money(&format!("explain proceeds {name}"), &js["proceeds"], d.proceeds, &mut atoms, &mut problems);
            money(&format!("explain total gain {name}"), &js["total_gain_or_loss"], super::common::sum(d.matches.iter().map(|m| m.gain_or_loss)), &mut atoms, &mut problems);
            let jm = js["matches"].as_array().cloned().unwrap_or_default();
            if jm.len() != d.matches.len() {
                problems.push(format!("explain lists {} legs for {name}, the report {}", jm.len(), d.matches.len()));
            }
            for (m, n) in d.matches.iter().zip(jm.iter()) {
                let want = match m.rule {
                    MatchRule::SameDay => "Same Day",
                    MatchRule::BedAndBreakfast => "Bed & Breakfast",
                    MatchRule::Section104 => "Section 104",
                };
                if n["rule"].as_str() != Some(want) {
                    problems.push(format!("explain leg rule {} for {want} ({name})", n["rule"]));
                }
                exact(&format!("explain leg quantity {name}"), &n["quantity"], m.quantity, &mut atoms, &mut problems);
                money(&format!("explain leg allowable_cost {name}"), &n["allowable_cost"], m.allowable_cost, &mut atoms, &mut problems);
                money(&format!("explain leg gain_or_loss {name}"), &n["gain_or_loss"], m.gain_or_loss, &mut atoms, &mut problems);
                let want_acq = m.acquisition_date.map(|a| a.to_string());
                if n.get("acquisition_date").and_then(|x| x.as_str()).map(|s| s.to_string()) != want_acq {
                    problems.push(format!("explain leg acquisition date {name}"));
                }
            }
            leaf.ob_bool("MCP.explain-structure", problems.is_empty(), &problems.join("; "));
            leaf.ob("MCP.explain-figures", &vx::and(&atoms));
        }
    }
}

pub fn c17_mcp(sk: &Skeleton) -> Leaf {
    let mode = Mode::parse(&sk.opt_str("mode").unwrap_or_else(|| "QPF".into()));
    let lines = ledger::instantiate(sk, "lines", &mode);
    let txs = ledger::to_transactions(&lines);
    let mut leaf = Leaf { extra: json!({"ledger": ledger::describe(&lines)}), outcome: "ok".into(), ..Default::default() };
    if !crate::mcpgen::AVAILABLE {
        leaf.outcome = "skip".into();
        return leaf;
    }
    let mut cfg = Config::embedded().expect("config");
    for l in &lines {
        use chrono::Datelike;
        for y in [l.date.year() - 1, l.date.year()] {
            if (1900..=2100).contains(&y) {
                cfg.exemptions.entry(y as u16).or_insert(Decimal::from(1000 + (y % 7) * 500));
            }
        }
    }
    let foreign = lines.iter().any(|l| l.cur_p != cgt_core::Currency::GBP || l.cur_f != cgt_core::Currency::GBP);
    let cache = if foreign { cgt_money::load_default_cache().ok() } else { None };
    let server = mcp::server(cache.clone(), cfg.clone());
    let as_dsl = sk.opt_str("input").as_deref() == Some("dsl");
    if as_dsl {
        // the DSL writer omits a zero FEES/TAX clause; the re-parsed zero is then a different TERM from the symbolic fee that
        // happens to be zero, and the abstracted round_dp(10) of the two proceeds terms would be two unrelated values
        // (a spurious difference). The DSL-input variant therefore assumes non-zero fees/tax; zero fees are covered by the
        // JSON-input variant, and the DSL round trip of zero clauses by C14.
        for l in &lines {
            if vx::is_symbolic(l.f) {
                vx::assume(&vx::lt_l("fee or tax > 0 (DSL-input variant)", Decimal::ZERO, l.f));
            }
        }
    }
    let input = if as_dsl { cgt_core::dsl::transactions_to_dsl(&txs) } else { serde_json::to_string(&txs).unwrap_or_default() };
    leaf.extra["input"] = json!(input);
    // ---- calculate_report, all years
    let direct = cgt_core::calculator::calculate(&txs, None, cache.as_ref(), &cfg);
    leaf.sig = super::common::signature(&direct, sk);
    report_reply(&mut leaf, "C17.mcp-report", mcp::calculate_report(&server, &input, None), &direct);
    let Ok(rep) = direct else {
        leaf.outcome = "err".into();
        return leaf;
    };
    // ---- calculate_report, each year with disposals
    for y in &rep.tax_years {
        let yr = y.period.start_year() as i32;
        let d = cgt_core::calculator::calculate(&txs, Some(yr), cache.as_ref(), &cfg);
        report_reply(&mut leaf, &format!("C17.mcp-report-{yr}"), mcp::calculate_report(&server, &input, Some(yr)), &d);
    }
    explain_all(&mut leaf, &server, &input, &rep);
    // ---- the same request again on the same server object: nothing may have been retained
    report_reply(&mut leaf, "C17.mcp-report-again", mcp::calculate_report(&server, &input, None), &Ok(rep));
    leaf
}

pub fn c14_mcp(sk: &Skeleton) -> Leaf {
    let mode = Mode::parse(&sk.opt_str("mode").unwrap_or_else(|| "QPF".into()));
    let lines = ledger::instantiate(sk, "lines", &mode);
    let txs = ledger::to_transactions(&lines);
    let mut leaf = Leaf { extra: json!({"ledger": ledger::describe(&lines)}), outcome: "ok".into(), ..Default::default() };
    if !crate::mcpgen::AVAILABLE {
        leaf.outcome = "skip".into();
        return leaf;
    }
    let server = mcp::server(None, Config::embedded().expect("config"));
    let dsl = cgt_core::dsl::transactions_to_dsl(&txs);
    let js = serde_json::to_string(&txs).unwrap_or_default();
    for (tag, input) in [("C14.mcp-parse-dsl", &dsl), ("C14.mcp-parse-json", &js)] {
        match mcp::parse_transactions(&server, &format!("\n  {input}\n")) {
            None => leaf.extra["parse.pending"] = json!(true),
            Some(Err(m)) => {
                leaf.ob_bool(&format!("{tag}.accepted"), false, &format!("{}: {input}", m.lines().take(3).collect::<Vec<_>>().join(" / ")));
            }
            Some(Ok(text)) => match serde_json::from_str::<Vec<Transaction>>(&text) {
                Err(e) => {
                    leaf.ob_bool(&format!("{tag}.reply-is-a-transaction-list"), false, &e.to_string());
                }
                Ok(back) => same_transactions(&mut leaf, tag, &txs, &back),
            },
        }
    }
    match mcp::convert_to_dsl(&server, &js) {
        None => leaf.extra["convert.pending"] = json!(true),
        Some(Err(m)) => {
            leaf.ob_bool("C14.mcp-convert.accepted", false, m.lines().next().unwrap_or(""));
        }
        Some(Ok(text)) => match cgt_core::parser::parse_file(&text) {
            Err(e) => {
                leaf.ob_bool("C14.mcp-convert.output-parses", false, &format!("{e}: {text}"));
            }
            Ok(back) => same_transactions(&mut leaf, "C14.mcp-convert", &txs, &back),
        },
    }
    leaf
}

/// C07 through the MCP tools: `explain_matching` derives the tax year of the disposal date itself (inline 6-April test) and asks
/// for that year's report; every disposal of the all-years report must be found there with the same figures, and
/// `calculate_report` for each year must be that year's slice.
pub fn c07_mcp(sk: &Skeleton) -> Leaf {
    let mode = Mode::parse(&sk.opt_str("mode").unwrap_or_else(|| "QPF".into()));
    let lines = ledger::instantiate(sk, "lines", &mode);
    let txs = ledger::to_transactions(&lines);
    let mut leaf = Leaf { extra: json!({"ledger": ledger::describe(&lines)}), outcome: "ok".into(), ..Default::default() };
    if !crate::mcpgen::AVAILABLE {
        leaf.outcome = "skip".into();
        return leaf;
    }
    let mut cfg = Config::embedded().expect("config");
    for y in 1900u16..=2100 {
        cfg.exemptions.entry(y).or_insert(Decimal::from(3000));
    }
    let server = mcp::server(None, cfg.clone());
    let input = serde_json::to_string(&txs).unwrap_or_default();
    let direct = cgt_core::calculator::calculate(&txs, None, None, &cfg);
    leaf.sig = super::common::signature(&direct, sk);
    let Ok(rep) = direct else {
        leaf.outcome = "err".into();
        return leaf;
    };
    explain_all(&mut leaf, &server, &input, &rep);
    for y in &rep.tax_years {
        let yr = y.period.start_year() as i32;
        let d = cgt_core::calculator::calculate(&txs, Some(yr), None, &cfg);
        report_reply(&mut leaf, &format!("C07.mcp-report-{yr}"), mcp::calculate_report(&server, &input, Some(yr)), &d);
    }
    leaf
}
