//! C08: foreign amounts convert at the HMRC rate of their own month, or the run fails.
//! The rate table is built by the REAL loader (bundled directory + override files whose XML carries symbolic
//! rates as reserved literals); the ledger is compared with its twin pre-converted to GBP.

use super::common::*;
use super::relational::{YEARS, all_d, all_h, compare, one};
use crate::ledger::{self, Kind, Line, Mode, Skeleton};
use crate::{Leaf, vx};
use cgt_core::{CgtError, Config, Currency};
use cgt_money::{FxCache, RateFile};
use chrono::Datelike;
use rust_decimal::Decimal;
use serde_json::json;
use std::collections::BTreeMap;
use std::str::FromStr;
use std::time::{Duration, UNIX_EPOCH};

/// the bundled HMRC rate read directly from the XML file on disk (independent of quick_xml and of FxCache)
fn bundled_rate_from_file(code: &str, year: i32, month: u32) -> Option<Decimal> {
    let path = format!("{}crates/cgt-money/resources/rates/{:04}-{:02}.xml", env!("VERIF_REPO_ROOT"), year, month);
    let text = std::fs::read_to_string(path).ok()?;
    let mut last = None;
    let mut rest = text.as_str();
    while let Some(i) = rest.find("<currencyCode>") {
        let after = &rest[i + 14..];
        let end = after.find("</currencyCode>")?;
        let c = after[..end].trim().to_uppercase();
        let tail = &after[end..];
        let r0 = tail.find("<rateNew>")?;
        let r1 = tail.find("</rateNew>")?;
        if c == code {
            last = Decimal::from_str(tail[r0 + 9..r1].trim()).ok(); // the cache keeps the last row of a currency
        }
        rest = &tail[r1..];
    }
    last
}

struct Override {
    year: i32,
    month: u32,
    file_name: String,
    period_month: u32,
    modified: Option<u64>,
    rates: Vec<(String, Decimal)>,
}

fn month_name(m: u32) -> &'static str {
    ["Jan", "Feb", "Mar", "Apr", "May", "Jun", "Jul", "Aug", "Sep", "Oct", "Nov", "Dec"][(m - 1) as usize]
}

fn xml_of(o: &Override) -> String {
    let mut s = format!("<?xml version=\"1.0\" encoding=\"UTF-8\"?>\n<exchangeRateMonthList Period=\"01/{}/{} to 28/{}/{}\">\n", month_name(o.period_month), o.year, month_name(o.period_month), o.year);
    for (c, r) in &o.rates {
        s.push_str(&format!("  <exchangeRate>\n    <countryName>X</countryName>\n    <countryCode>XX</countryCode>\n    <currencyName>X</currencyName>\n    <currencyCode>{c}</currencyCode>\n    <rateNew>{r}</rateNew>\n  </exchangeRate>\n"));
    }
    s.push_str("</exchangeRateMonthList>\n");
    s
}

pub fn c08(sk: &Skeleton) -> Leaf {
    let mode = Mode::parse(&sk.opt_str("mode").unwrap_or_else(|| "QPF".into()));
    let lines = ledger::instantiate(sk, "lines", &mode);
    let txs = ledger::to_transactions(&lines);
    let mut leaf = Leaf { extra: json!({"ledger": ledger::describe(&lines)}), ..Default::default() };
    let zero = Decimal::ZERO;
    // ---- override files
    let mut ovs: Vec<Override> = Vec::new();
    let mut expect_loader_err = false;
    let mut free_sign: Vec<Decimal> = Vec::new();
    for (i, o) in sk.raw["opts"]["overrides"].as_array().cloned().unwrap_or_default().iter().enumerate() {
        let year = o["year"].as_i64().unwrap_or(2024) as i32;
        let month = o["month"].as_i64().unwrap_or(1) as u32;
        let pm = o["period_month"].as_i64().map(|x| x as u32).unwrap_or(month);
        if pm != month {
            expect_loader_err = true;
        }
        let mut rates = Vec::new();
        for (j, r) in o["rates"].as_array().cloned().unwrap_or_default().iter().enumerate() {
            let code = r[0].as_str().unwrap_or("USD").to_string();
            let kind = r[1].as_str().unwrap_or("sym");
            let v = vx::fresh(&format!("rate{i}_{j}{code}"));
            if kind == "free" {
                free_sign.push(v); // the solver chooses the sign: a non-positive rate must be rejected by the loader
            } else {
                vx::assume(&vx::gt(v, zero));
            }
            rates.push((code, v));
        }
        ovs.push(Override { year, month, file_name: o["name"].as_str().map(|s| s.to_string()).unwrap_or(format!("{year:04}-{month:02}.xml")), period_month: pm, modified: o["modified"].as_u64(), rates });
    }
    let files: Vec<RateFile> = ovs
        .iter()
        .map(|o| RateFile { name: std::path::PathBuf::from(format!("/fx/{}", o.file_name)), modified: o.modified.map(|s| UNIX_EPOCH + Duration::from_secs(s)), xml: xml_of(o) })
        .collect();
    let via_folder = sk.opt_i64("folder").unwrap_or(0) == 1;
    let files = if via_folder {
        // through the CLI's own read_fx_folder (source-extracted): files written to a scratch directory, plus a non-xml file
        let dir = std::env::temp_dir().join(format!("symx-c08-{}", std::process::id()));
        let _ = std::fs::create_dir_all(&dir);
        for f in &files {
            let _ = std::fs::write(dir.join(f.name.file_name().unwrap_or_default()), &f.xml);
        }
        let _ = std::fs::write(dir.join("notes.txt"), "not a rates file");
        let r = super::relational_cli_fx_folder(&dir);
        let _ = std::fs::remove_dir_all(&dir);
        match r {
            Some(v) => v,
            None => {
                leaf.outcome = "cli-helper-not-extracted".into();
                return leaf;
            }
        }
    } else {
        files
    };
    let cache = match cgt_money::load_cache_with_overrides(files) {
        Ok(c) => c,
        Err(e) => {
            leaf.outcome = "loader-err".into();
            leaf.msg = e.to_string();
            // (d) rejected only for a mislabelled period or a non-positive rate
            let nonpos: Vec<vx::B> = free_sign.iter().map(|r| vx::le(*r, zero)).collect();
            if expect_loader_err {
                leaf.ob_bool("C08.loader-rejects-period-mismatch", leaf.msg.contains("Period mismatch") || !nonpos.is_empty(), &leaf.msg.clone());
            } else {
                leaf.ob("C08.loader-rejects-only-non-positive-rate", &vx::or(&nonpos));
            }
            return leaf;
        }
    };
    if expect_loader_err {
        leaf.ob_bool("C08.loader-rejects-period-mismatch", false, "a rates file whose period disagrees with its name was loaded");
        return leaf;
    }
    if !free_sign.is_empty() {
        let pos: Vec<vx::B> = free_sign.iter().map(|r| vx::gt(*r, zero)).collect();
        leaf.ob("C08.loader-accepts-only-positive-rates", &vx::and(&pos));
    }
    // ---- expected rate per (currency, year, month): latest-modified override that lists it, else the bundled file
    let mut order: Vec<&Override> = ovs.iter().collect();
    order.sort_by_key(|o| o.modified.unwrap_or(0)); // stable: ties keep file order
    let mut over: BTreeMap<(String, i32, u32), Decimal> = BTreeMap::new();
    for o in &order {
        for (c, r) in &o.rates {
            over.insert((c.clone(), o.year, o.month), *r);
        }
    }
    let expected_rate = |code: &str, y: i32, m: u32| -> Option<Decimal> { over.get(&(code.to_string(), y, m)).copied().or_else(|| bundled_rate_from_file(code, y, m)) };
    // (c) an override replaces exactly its (currency, year, month): every other key still carries the bundled rate
    let mut atoms = Vec::new();
    let mut problems = Vec::new();
    let probe_codes = ["USD", "EUR", "JPY", "CHF", "AUD"];
    let mut months: Vec<(i32, u32)> = ovs.iter().flat_map(|o| vec![(o.year, o.month), prev_month(o.year, o.month), next_month(o.year, o.month), (o.year - 1, o.month), (o.year + 1, o.month)]).collect();
    months.push((2015, 1));
    months.push((2024, 6));
    months.sort();
    months.dedup();
    for (y, m) in months {
        for c in probe_codes {
            let cur = Currency::from_code(c).expect("code");
            let got = cache.get(cur, y, m).map(|e| e.rate_per_gbp);
            match (got, expected_rate(c, y, m)) {
                (Some(g), Some(w)) => atoms.push(vx::eq_l(&format!("rate {c} {y}-{m:02}"), g, w)),
                (None, None) => {}
                (g, w) => problems.push(format!("rate {c} {y}-{m:02}: cache has {:?}, expected {:?}", g.map(|x| x.to_string()), w.map(|x| x.to_string()))),
            }
        }
    }
    leaf.ob_bool("C08.override-is-local.keys", problems.is_empty(), &problems.join("; "));
    leaf.ob("C08.override-is-local", &vx::and(&atoms));
    // ---- (a)/(b) the ledger
    let cfg = Config::embedded().expect("config");
    let res = cgt_core::calculator::calculate(&txs, None, Some(&cache), &cfg);
    // which line/field lacks a rate?
    let mut missing: Option<(String, i32, u32)> = None;
    let mut twin: Vec<Line> = Vec::new();
    for l in &lines {
        let mut t = l.clone();
        let has_money = matches!(l.kind, Kind::Buy | Kind::Sell | Kind::Dividend | Kind::Accum | Kind::CapReturn);
        if has_money {
            for (which, curc) in [(0, l.cur_p), (1, l.cur_f)] {
                if curc == Currency::GBP {
                    continue;
                }
                match expected_rate(curc.code(), l.date.year(), l.date.month()) {
                    Some(r) => {
                        if which == 0 {
                            t.p = l.p / r;
                            t.cur_p = Currency::GBP;
                        } else {
                            t.f = l.f / r;
                            t.cur_f = Currency::GBP;
                        }
                    }
                    None => {
                        if missing.is_none() {
                            missing = Some((curc.code().to_string(), l.date.year(), l.date.month()));
                        }
                    }
                }
            }
        }
        twin.push(t);
    }
    leaf.sig = signature(&res, sk);
    match (&res, &missing) {
        (Err(CgtError::MissingFxRate { currency, year, month }), Some((c, y, m))) => {
            leaf.outcome = "err-missing-rate".into();
            leaf.ob_bool("C08.missing-rate-names-currency-and-month", currency == c && year == y && month == m, &format!("error names {currency} {year}-{month:02}, first missing is {c} {y}-{m:02}"));
        }
        (Err(e), Some(_)) => {
            leaf.outcome = "err".into();
            leaf.msg = e.to_string();
            // another refusal (e.g. an uncovered sale) may come first only if it does not depend on amounts
            leaf.ob_bool("C08.missing-rate-is-an-error", true, "");
        }
        (Ok(_), Some((c, y, m))) => {
            leaf.outcome = "ok".into();
            leaf.ob_bool("C08.missing-rate-is-an-error", false, &format!("report produced although no rate exists for {c} {y}-{m:02}"));
        }
        (_, None) => {
            let a: Result<Outcome, CgtError> = res.map(|rep| {
                let ds = disposals(sk, &rep);
                let holdings = rep.holdings.iter().map(|h| (h.ticker.clone(), (h.quantity, h.total_cost))).collect();
                Outcome { disposals: ds, holdings, report: Some(rep) }
            });
            leaf.outcome = if a.is_ok() { "ok".into() } else { "err".into() };
            let b = run_level("report", sk, &ledger::to_transactions(&twin));
            compare(&mut leaf, "C08.equals-preconverted-twin", &b, &a, &one, &all_d, &all_h, YEARS);
        }
    }
    // no rate table at all: any foreign amount is an error, never treated as GBP
    if lines.iter().any(|l| l.cur_p != Currency::GBP || l.cur_f != Currency::GBP) {
        let r = cgt_core::calculator::calculate(&txs, None, None, &cfg);
        leaf.ob_bool("C08.no-table-is-an-error", matches!(r, Err(CgtError::MissingFxRate { .. })) || matches!(r, Err(_)), "foreign amounts accepted without any rate table");
    }
    leaf
}

fn prev_month(y: i32, m: u32) -> (i32, u32) {
    if m == 1 { (y - 1, 12) } else { (y, m - 1) }
}
fn next_month(y: i32, m: u32) -> (i32, u32) {
    if m == 12 { (y + 1, 1) } else { (y, m + 1) }
}

#[allow(dead_code)]
fn _unused(_c: &FxCache) {}
