//! C18 (Schwab conversion keeps every CGT-relevant row and emits valid DSL) and C19 (RSU vest look-back).
//! The export JSON is built with symbolic amounts written as reserved literals (wrapped in Schwab's spellings:
//! `$`, thousands commas, leading minus); the REAL converter parses it, and its DSL output is parsed back by the
//! REAL DSL parser, so every numeric field returns as the term it started from.

use super::common::*;
use super::relational::{YEARS, all_d, all_h, compare, one};
use crate::ledger::Skeleton;
use crate::{Leaf, vx};
use cgt_converter::schwab::{SchwabConverter, SchwabInput};
use cgt_converter::{BrokerConverter, ConvertError, ConvertOutput};
use cgt_core::{CgtError, Config, Operation, Transaction};
use chrono::NaiveDate;
use rust_decimal::Decimal;
use serde_json::{Value, json};
use std::collections::BTreeMap;

#[derive(Clone, Debug)]
struct Row {
    action: String,
    symbol: String,
    date: NaiveDate,
    /// date the row is listed under when it carries an "as of" date
    listed: Option<NaiveDate>,
    q: Decimal,
    p: Decimal,
    f: Option<Decimal>,
    a: Decimal,
    spelling: String,
    desc: String,
    /// the fee is written with a minus sign (hostile export): only 'the output is valid DSL' is demanded of its FEES clause
    negfee: bool,
}

fn us(d: NaiveDate) -> String {
    d.format("%m/%d/%Y").to_string()
}

fn group(s: &str) -> String {
    // thousands separators as Schwab writes them
    let (ip, fp) = match s.split_once('.') {
        Some((a, b)) => (a.to_string(), format!(".{b}")),
        None => (s.to_string(), String::new()),
    };
    let chars: Vec<char> = ip.chars().collect();
    let mut out = String::new();
    for (i, c) in chars.iter().enumerate() {
        if i > 0 && (chars.len() - i) % 3 == 0 {
            out.push(',');
        }
        out.push(*c);
    }
    out + &fp
}

fn spell(v: Decimal, how: &str, neg: bool) -> String {
    let s = v.to_string();
    let body = match how {
        "plain" => s,
        "dollar" => format!("${s}"),
        "comma" => format!("${}", group(&s)),
        _ => s,
    };
    if neg { format!("-{body}") } else { body }
}

fn row_json(r: &Row) -> Value {
    let date = match r.listed {
        Some(l) => format!("{} as of {}", us(l), us(r.date)),
        None => us(r.date),
    };
    let is_trade = matches!(r.action.as_str(), "Buy" | "Sell" | "Cancel Sell");
    let is_rsu = r.action == "Stock Plan Activity";
    let is_money = matches!(r.action.as_str(), "Cash Dividend" | "Qualified Dividend" | "Short Term Cap Gain" | "Long Term Cap Gain" | "NRA Tax Adj" | "NRA Withholding");
    let negative_amount = matches!(r.action.as_str(), "NRA Tax Adj" | "NRA Withholding");
    json!({
        "Date": date,
        "Action": r.action,
        "Symbol": r.symbol,
        "Description": r.desc,
        "Quantity": if is_trade || is_rsu { spell(r.q, if r.spelling == "comma" { "comma_q" } else { "plain" }, false) } else { String::new() },
        "Price": if is_trade { spell(r.p, &r.spelling, false) } else { String::new() },
        "Fees & Comm": match (&r.f, is_trade) { (Some(f), true) => spell(*f, &r.spelling, r.negfee), (None, true) => "--".to_string(), _ => String::new() },
        "Amount": if is_money { spell(r.a, &r.spelling, negative_amount) } else if is_trade { spell(r.q, "plain", false) } else { String::new() },
    })
}

fn rows_of(sk: &Skeleton) -> Vec<Row> {
    let zero = Decimal::ZERO;
    let mut out = Vec::new();
    for (i, r) in sk.raw["opts"]["rows"].as_array().cloned().unwrap_or_default().iter().enumerate() {
        let action = r[0].as_str().unwrap_or("Buy").to_string();
        let symbol = r[1].as_str().unwrap_or("A").to_string();
        let day = r[2].as_i64().unwrap_or(0);
        let spelling = r[3].as_str().unwrap_or("dollar").to_string();
        let listed = r.get(4).and_then(|x| x.as_i64()).map(|d| sk.date(d));
        let desc = r.get(5).and_then(|x| x.as_str()).unwrap_or("some description").to_string();
        // `same` = index of an earlier row whose quantity and price this row repeats (duplicate rows, cancel rows)
        let same = r.get(6).and_then(|x| x.as_u64()).map(|x| x as usize);
        let nofee = r.get(7).and_then(|x| x.as_bool()).unwrap_or(false);
        let negfee = r.get(8).and_then(|x| x.as_bool()).unwrap_or(false);
        let (q, p) = match same {
            Some(j) if j < out.len() => {
                let o: &Row = &out[j];
                (o.q, o.p)
            }
            _ => {
                let q = vx::fresh(&format!("q{i}"));
                vx::assume(&vx::gt(q, zero));
                let p = vx::fresh(&format!("p{i}"));
                vx::assume(&vx::ge(p, zero));
                (q, p)
            }
        };
        let f = if nofee {
            None
        } else {
            let f = vx::fresh(&format!("f{i}"));
            vx::assume(&vx::ge(f, zero));
            Some(f)
        };
        let a = vx::fresh(&format!("a{i}"));
        vx::assume(&vx::ge(a, zero));
        out.push(Row { action, symbol, date: sk.date(day), listed, q, p, f, a, spelling, desc, negfee });
    }
    // "identical" sells (same date, symbol, quantity, price) are identical in their fees too: which of two sells that differ
    // only in fees a Cancel Sell removes is not determined by the export
    for i in 0..out.len() {
        for j in i + 1..out.len() {
            let (a, b) = (&out[i], &out[j]);
            if a.action == "Sell" && b.action == "Sell" && a.date == b.date && a.symbol == b.symbol {
                let fa = a.f.unwrap_or(zero);
                let fb = b.f.unwrap_or(zero);
                vx::assume(&vx::implies(&vx::and(&[vx::eq(a.q, b.q), vx::eq(a.p, b.p)]), &vx::eq(fa, fb)));
            }
        }
    }
    out
}

struct Award {
    symbol: String,
    date: NaiveDate,
    vest_date: Option<NaiveDate>,
    fmv: Decimal,
    vest_fmv: Option<Decimal>,
    action: Option<String>,
    empty_details: bool,
    /// two detail records in one award transaction: one vest-specific, one fallback-only ("mixed": vest first, "mixed2": fallback first)
    mixed: u8,
}

fn awards_of(sk: &Skeleton) -> Option<Vec<Award>> {
    let arr = sk.raw["opts"].get("awards")?.as_array()?.clone();
    let zero = Decimal::ZERO;
    let mut out = Vec::new();
    for (i, a) in arr.iter().enumerate() {
        let symbol = a[0].as_str().unwrap_or("A").to_string();
        let date = sk.date(a[1].as_i64().unwrap_or(0));
        let kind = a[2].as_str().unwrap_or("fmv");
        let vest_date = a.get(3).and_then(|x| x.as_i64()).map(|d| sk.date(d));
        let fmv = vx::fresh(&format!("fmv{i}"));
        vx::assume(&vx::ge(fmv, zero));
        let vest_fmv = if kind == "vest" || kind == "both" || kind.starts_with("mixed") {
            let v = vx::fresh(&format!("vfmv{i}"));
            vx::assume(&vx::ge(v, zero));
            Some(v)
        } else {
            None
        };
        out.push(Award {
            symbol,
            date,
            vest_date,
            fmv,
            vest_fmv,
            action: a.get(4).and_then(|x| x.as_str()).map(|s| s.to_string()),
            empty_details: kind == "empty",
            mixed: if kind == "mixed" { 1 } else if kind == "mixed2" { 2 } else { 0 },
        });
    }
    Some(out)
}

fn awards_json(aw: &[Award]) -> String {
    let tx: Vec<Value> = aw
        .iter()
        .map(|a| {
            let mut details = serde_json::Map::new();
            if a.vest_fmv.is_none() || a.vest_date.is_none() || true {
                details.insert("FairMarketValuePrice".into(), json!(format!("${}", a.fmv)));
            }
            if let Some(v) = a.vest_fmv {
                details.insert("VestFairMarketValue".into(), json!(format!("${v}")));
                if let Some(vd) = a.vest_date {
                    details.insert("VestDate".into(), json!(us(vd)));
                }
            }
            let mut o = serde_json::Map::new();
            o.insert("Date".into(), json!(us(a.date)));
            if let Some(ac) = &a.action {
                o.insert("Action".into(), json!(ac));
            }
            o.insert("Symbol".into(), json!(a.symbol));
            let dets = if a.empty_details {
                json!([])
            } else if a.mixed != 0 {
                let mut v = serde_json::Map::new();
                v.insert("VestFairMarketValue".into(), json!(format!("${}", a.vest_fmv.unwrap_or(a.fmv))));
                if let Some(vd) = a.vest_date {
                    v.insert("VestDate".into(), json!(us(vd)));
                }
                let f = json!({"Details": {"FairMarketValuePrice": format!("${}", a.fmv)}});
                let v = json!({"Details": Value::Object(v)});
                if a.mixed == 1 { json!([v, f]) } else { json!([f, v]) }
            } else {
                json!([{"Details": Value::Object(details)}])
            };
            o.insert("TransactionDetails".into(), dets);
            Value::Object(o)
        })
        .collect();
    json!({"Transactions": tx}).to_string()
}

/// statute of the look-back (C19): entry of the same symbol (case-insensitive) on the deposit date, else the closest
/// earlier date at most 7 days before; vest-date market value preferred over the fallback price; later entries of the
/// same date replace earlier ones
fn expected_award(aw: &[Award], symbol: &str, date: NaiveDate) -> Option<(NaiveDate, Decimal)> {
    // the table the awards file denotes: (symbol, effective date) -> price, later rows overwrite
    let mut table: BTreeMap<NaiveDate, Decimal> = BTreeMap::new();
    for a in aw.iter().filter(|a| a.symbol.to_uppercase() == symbol.to_uppercase() && !a.empty_details) {
        match (a.vest_fmv, a.vest_date) {
            (Some(v), vd) => {
                table.insert(vd.unwrap_or(a.date), v);
            }
            (None, _) => {
                table.insert(a.date, a.fmv);
            }
        }
    }
    for g in 0..=7 {
        let d = date - chrono::Duration::days(g);
        if let Some(p) = table.get(&d) {
            return Some((d, *p));
        }
    }
    None
}

fn convert(rows: &[Row], aw: Option<&[Award]>) -> Result<ConvertOutput, ConvertError> {
    let tj = json!({"BrokerageTransactions": rows.iter().map(row_json).collect::<Vec<_>>()}).to_string();
    let input = SchwabInput { transactions_json: tj, awards_json: aw.map(awards_json) };
    SchwabConverter::new().convert(&input)
}

#[derive(Clone, Debug)]
struct Exp {
    kind: &'static str,
    date: NaiveDate,
    symbol: String,
    q: Decimal,
    p: Decimal,
    /// None: not demanded (negative fee in the export)
    f: Option<Decimal>,
}

/// what the export denotes, row for row (None: the export must be refused)
fn expected(rows: &[Row], aw: Option<&[Award]>) -> Result<(Vec<Exp>, usize, usize), String> {
    let zero = Decimal::ZERO;
    let mut out: Vec<Exp> = Vec::new();
    let mut skipped = 0usize;
    let mut warnings = 0usize;
    // withholding per (date, symbol)
    let mut tax: BTreeMap<(NaiveDate, String), Decimal> = BTreeMap::new();
    for r in rows.iter().filter(|r| matches!(r.action.as_str(), "NRA Tax Adj" | "NRA Withholding")) {
        let e = tax.entry((r.date, r.symbol.clone())).or_insert(zero);
        *e = *e + r.a;
    }
    let mut cancels: Vec<&Row> = Vec::new();
    for r in rows {
        match r.action.as_str() {
            "Buy" => out.push(Exp { kind: "BUY", date: r.date, symbol: r.symbol.clone(), q: r.q, p: r.p, f: if r.negfee { None } else { Some(r.f.unwrap_or(zero)) } }),
            "Sell" => out.push(Exp { kind: "SELL", date: r.date, symbol: r.symbol.clone(), q: r.q, p: r.p, f: if r.negfee { None } else { Some(r.f.unwrap_or(zero)) } }),
            "Cancel Sell" => cancels.push(r),
            "Stock Plan Activity" => {
                let Some(a) = aw else { return Err(format!("missing-fmv {} {}", r.symbol, r.date)) };
                match expected_award(a, &r.symbol, r.date) {
                    Some((d, p)) => out.push(Exp { kind: "BUY", date: d, symbol: r.symbol.clone(), q: r.q, p, f: Some(zero) }),
                    None => return Err(format!("missing-fmv {} {}", r.symbol, r.date)),
                }
            }
            "Cash Dividend" | "Qualified Dividend" | "Short Term Cap Gain" | "Long Term Cap Gain" => {
                let t = tax.remove(&(r.date, r.symbol.clone())).unwrap_or(zero);
                out.push(Exp { kind: "DIVIDEND", date: r.date, symbol: r.symbol.clone(), q: zero, p: r.a, f: Some(t) });
            }
            "NRA Tax Adj" | "NRA Withholding" => {}
            "Stock Split" => skipped += 1,
            "Journal" | "Wire Sent" | "Credit Interest" | "Service Fee" => skipped += 1,
            _ => {
                skipped += 1;
                warnings += 1;
            }
        }
    }
    for c in cancels {
        // removes exactly one identical sell (same date, symbol, quantity, price), else a warning
        let pos = out.iter().position(|e| e.kind == "SELL" && e.date == c.date && e.symbol == c.symbol && e.q == c.q && e.p == c.p);
        match pos {
            Some(i) => {
                out.remove(i);
            }
            None => warnings += 1,
        }
    }
    Ok((out, skipped, warnings))
}

fn kind_of(t: &Transaction) -> (&'static str, Decimal, Decimal, Decimal, &'static str, &'static str) {
    match &t.operation {
        Operation::Buy { amount, price, fees } => ("BUY", *amount, price.amount, fees.amount, price.code(), fees.code()),
        Operation::Sell { amount, price, fees } => ("SELL", *amount, price.amount, fees.amount, price.code(), fees.code()),
        Operation::Dividend { total_value, tax_paid } => ("DIVIDEND", Decimal::ZERO, total_value.amount, tax_paid.amount, total_value.code(), tax_paid.code()),
        _ => ("OTHER", Decimal::ZERO, Decimal::ZERO, Decimal::ZERO, "", ""),
    }
}

/// the parsed output is, line for line (after the stable sort by date), what the rows denote
fn check_against_expected(leaf: &mut Leaf, tag: &str, parsed: &[Transaction], exp: &[Exp]) {
    let mut want: Vec<&Exp> = exp.iter().collect();
    want.sort_by_key(|e| e.date); // stable: rows of one date keep their order
    let mut problems = Vec::new();
    if parsed.len() != want.len() {
        problems.push(format!("{} DSL transactions for {} relevant rows", parsed.len(), want.len()));
    }
    let mut atoms = Vec::new();
    for (i, (t, e)) in parsed.iter().zip(want.iter()).enumerate() {
        let (k, q, p, f, c1, c2) = kind_of(t);
        if k != e.kind || t.date != e.date || t.ticker != e.symbol.to_uppercase() {
            problems.push(format!("line {i}: {} {} {} for row {} {} {}", t.date, k, t.ticker, e.date, e.kind, e.symbol));
            continue;
        }
        if c1 != "USD" {
            problems.push(format!("line {i}: amount labelled {c1}, Schwab exports are in USD"));
        }
        if e.kind != "DIVIDEND" {
            atoms.push(vx::eq_l(&format!("{tag} line {i} quantity"), q, e.q));
        }
        atoms.push(vx::eq_l(&format!("{tag} line {i} price/total"), p, e.p));
        if let Some(ef) = e.f {
            atoms.push(vx::eq_l(&format!("{tag} line {i} fees/tax"), f, ef));
        }
        if c2 != "USD" {
            atoms.push(vx::eq_l(&format!("{tag} line {i} fees/tax labelled {c2} although non-zero"), f, Decimal::ZERO));
        }
    }
    // chronological order
    let sorted = parsed.windows(2).all(|w| w[0].date <= w[1].date);
    leaf.ob_bool(&format!("{tag}.chronological"), sorted, "output dates decrease");
    leaf.ob_bool(&format!("{tag}.row-for-row.structure"), problems.is_empty(), &problems.join("; "));
    leaf.ob(&format!("{tag}.row-for-row.values"), &vx::and(&atoms));
}

fn report_of(sk: &Skeleton, dsl: &str) -> Result<Outcome, String> {
    let txs = cgt_core::parser::parse_file(dsl).map_err(|e| format!("parse: {e}"))?;
    let cfg = Config::embedded().map_err(|e| e.to_string())?;
    let cache = cgt_money::load_default_cache().map_err(|e| e.to_string())?;
    let rep = cgt_core::calculator::calculate(&txs, None, Some(&cache), &cfg).map_err(|e| format!("calculate: {e}"))?;
    Ok(Outcome { disposals: disposals(sk, &rep), holdings: rep.holdings.iter().map(|h| (h.ticker.clone(), (h.quantity, h.total_cost))).collect(), report: Some(rep) })
}

pub fn c18(sk: &Skeleton) -> Leaf {
    let rows = rows_of(sk);
    let aw = awards_of(sk);
    let mut leaf = Leaf { extra: json!({"rows": rows.iter().map(|r| format!("{} {} {} {}", us(r.date), r.action, r.symbol, r.spelling)).collect::<Vec<_>>()}), ..Default::default() };
    let res = convert(&rows, aw.as_deref());
    let exp = expected(&rows, aw.as_deref());
    let variant = sk.opt_str("variant").unwrap_or_else(|| "rows".into());
    match (&res, &exp) {
        (Err(e), Err(why)) => {
            leaf.outcome = "err".into();
            leaf.msg = e.to_string();
            let ok = matches!(e, ConvertError::MissingFairMarketValue { .. });
            leaf.ob_bool("C18.refusal-names-symbol-and-date", ok && why.split(' ').skip(1).all(|w| leaf.msg.contains(w)), &format!("{} vs {why}", leaf.msg));
        }
        (Err(e), Ok(_)) => {
            leaf.outcome = "err".into();
            leaf.msg = e.to_string();
            leaf.ob_bool("C18.accepts-supported-export", false, &format!("export refused: {e}"));
        }
        (Ok(_), Err(why)) => {
            leaf.outcome = "ok".into();
            leaf.ob_bool("C18.rsu-without-market-value-refused", false, &format!("converted although {why}"));
        }
        (Ok(out), Ok((exp, skipped, warnings))) => {
            leaf.outcome = "ok".into();
            leaf.extra["dsl"] = json!(out.cgt_content);
            let parsed = match cgt_core::parser::parse_file(&out.cgt_content) {
                Ok(p) => p,
                Err(e) => {
                    leaf.ob_bool("C18.output-is-valid-dsl", false, &format!("{e}"));
                    return leaf;
                }
            };
            leaf.ob_bool("C18.output-is-valid-dsl", true, "");
            leaf.sig = json!({"ok": true, "lines": parsed.iter().map(|t| format!("{} {} {}", t.date, kind_of(t).0, t.ticker)).collect::<Vec<_>>()});
            check_against_expected(&mut leaf, "C18", &parsed, exp);
            leaf.ob_bool("C18.skipped-count", out.skipped_count == *skipped, &format!("skipped_count {} for {} skippable rows", out.skipped_count, skipped));
            let real_warnings = out.warnings.iter().filter(|w| !w.starts_with("No awards file")).count();
            leaf.ob_bool("C18.warnings", real_warnings == *warnings, &format!("{} warnings for {} rows that need one: {:?}", real_warnings, warnings, out.warnings));
            // every unknown row is surfaced as a comment naming its action
            let unknown_ok = rows.iter().filter(|r| r.action == "Mystery Action").all(|r| out.cgt_content.lines().any(|l| l.starts_with('#') && l.contains("Mystery Action") && (l.contains(&r.symbol) || !r.symbol.chars().all(|c| c.is_ascii_alphanumeric()))));
            leaf.ob_bool("C18.unknown-rows-surfaced", unknown_ok, "an unknown action left no comment line");
            // dividends and same-day withholding keep their totals
            let mut atoms = Vec::new();
            let mut keys: Vec<(NaiveDate, String)> = rows.iter().filter(|r| r.action.contains("Dividend") || r.action.contains("Cap Gain")).map(|r| (r.date, r.symbol.clone())).collect();
            keys.sort();
            keys.dedup();
            for (d, s) in keys {
                let div: Decimal = sum(rows.iter().filter(|r| (r.action.contains("Dividend") || r.action.contains("Cap Gain")) && r.date == d && r.symbol == s).map(|r| r.a));
                let wh: Decimal = sum(rows.iter().filter(|r| r.action.starts_with("NRA") && r.date == d && r.symbol == s).map(|r| r.a));
                let got_div: Decimal = sum(parsed.iter().filter(|t| t.date == d && t.ticker == s.to_uppercase()).map(|t| if kind_of(t).0 == "DIVIDEND" { kind_of(t).2 } else { Decimal::ZERO }));
                let got_tax: Decimal = sum(parsed.iter().filter(|t| t.date == d && t.ticker == s.to_uppercase()).map(|t| if kind_of(t).0 == "DIVIDEND" { kind_of(t).3 } else { Decimal::ZERO }));
                atoms.push(vx::eq_l(&format!("dividend total {s} {d}"), got_div, div));
                atoms.push(vx::eq_l(&format!("withholding total {s} {d}"), got_tax, wh));
            }
            leaf.ob("C18.dividend-and-withholding-totals", &vx::and(&atoms));

            if variant == "perm" {
                // the output does not depend on the order of rows in the export
                let base_rep = report_of(sk, &out.cgt_content);
                let n = rows.len();
                let mut orders: Vec<Vec<usize>> = vec![(0..n).rev().collect()];
                let mut rot: Vec<usize> = (0..n).collect();
                rot.rotate_left(1);
                orders.push(rot);
                for i in 0..n.saturating_sub(1) {
                    let mut p: Vec<usize> = (0..n).collect();
                    p.swap(i, i + 1);
                    orders.push(p);
                }
                for (oi, ord) in orders.iter().enumerate() {
                    let prow: Vec<Row> = ord.iter().map(|&i| rows[i].clone()).collect();
                    match convert(&prow, aw.as_deref()) {
                        Err(e) => {
                            leaf.ob_bool(&format!("C18.row-order[{oi}].accepted"), false, &format!("reordered export refused: {e}"));
                        }
                        Ok(o2) => {
                            let p2 = cgt_core::parser::parse_file(&o2.cgt_content);
                            match p2 {
                                Err(e) => {
                                    leaf.ob_bool(&format!("C18.row-order[{oi}].valid-dsl"), false, &format!("{e}"));
                                }
                                Ok(p2) => {
                                    // same transactions as a multiset: per (date, kind, ticker) the count and the sums of quantity, value, fees agree
                                    let fold = |v: &[Transaction]| {
                                        let mut m: BTreeMap<(NaiveDate, &'static str, String), (usize, Decimal, Decimal, Decimal)> = BTreeMap::new();
                                        for t in v {
                                            let (k, q, p, f, _, _) = kind_of(t);
                                            let e = m.entry((t.date, k, t.ticker.clone())).or_insert((0, Decimal::ZERO, Decimal::ZERO, Decimal::ZERO));
                                            e.0 += 1;
                                            e.1 = e.1 + q;
                                            e.2 = e.2 + if k == "DIVIDEND" { p } else { q * p };
                                            e.3 = e.3 + f;
                                        }
                                        m
                                    };
                                    let (m1, m2) = (fold(&parsed), fold(&p2));
                                    let same_keys = m1.keys().collect::<Vec<_>>() == m2.keys().collect::<Vec<_>>() && m1.iter().all(|(k, v)| m2[k].0 == v.0);
                                    if leaf.ob_bool(&format!("C18.row-order[{oi}].same-lines"), same_keys, "the set of output lines depends on row order") {
                                        let mut at = Vec::new();
                                        for (k, v) in &m1 {
                                            let w = &m2[k];
                                            at.push(vx::eq_l(&format!("quantity {k:?}"), v.1, w.1));
                                            at.push(vx::eq_l(&format!("value {k:?}"), v.2, w.2));
                                            at.push(vx::eq_l(&format!("fees/tax {k:?}"), v.3, w.3));
                                        }
                                        leaf.ob(&format!("C18.row-order[{oi}].same-values"), &vx::and(&at));
                                    }
                                    leaf.ob_bool(&format!("C18.row-order[{oi}].skipped-and-warnings"), o2.skipped_count == out.skipped_count && o2.warnings.len() == out.warnings.len(), "skipped count / warnings depend on row order");
                                    if sk.opt_i64("report").unwrap_or(0) == 1 {
                                        let r2 = report_of(sk, &o2.cgt_content);
                                        if let (Ok(a), Ok(b)) = (&base_rep, &r2) {
                                            let ra: Result<Outcome, CgtError> = Ok(a.clone());
                                            let rb: Result<Outcome, CgtError> = Ok(b.clone());
                                            compare(leaf_mut(&mut leaf), &format!("C18.row-order[{oi}].report"), &ra, &rb, &one, &all_d, &all_h, YEARS);
                                        } else if base_rep.is_ok() != r2.is_ok() {
                                            leaf.ob_bool(&format!("C18.row-order[{oi}].report"), false, "one order yields a report, the other an error");
                                        }
                                    }
                                }
                            }
                        }
                    }
                }
            }
            if variant == "chunks" {
                // converting date-disjoint chunks and reporting them together equals converting the whole
                let whole = report_of(sk, &out.cgt_content);
                let mut dates: Vec<NaiveDate> = rows.iter().map(|r| r.date).collect();
                dates.sort();
                dates.dedup();
                for cut in dates.iter().skip(1) {
                    let (a, b): (Vec<Row>, Vec<Row>) = rows.iter().cloned().partition(|r| r.date < *cut);
                    let (oa, ob) = (convert(&a, aw.as_deref()), convert(&b, aw.as_deref()));
                    match (oa, ob) {
                        (Ok(x), Ok(y)) => {
                            // the CLI joins input files with a newline
                            let joined = format!("{}\n{}", x.cgt_content, y.cgt_content);
                            let parts = report_of(sk, &joined);
                            match (&whole, &parts) {
                                (Ok(w), Ok(p)) => {
                                    let rw: Result<Outcome, CgtError> = Ok(w.clone());
                                    let rp: Result<Outcome, CgtError> = Ok(p.clone());
                                    compare(leaf_mut(&mut leaf), &format!("C18.chunks[{cut}]"), &rw, &rp, &one, &all_d, &all_h, YEARS);
                                }
                                (Err(_), Err(_)) => {}
                                (w, p) => {
                                    leaf.ob_bool(&format!("C18.chunks[{cut}]"), false, &format!("whole: {:?} chunks: {:?}", w.as_ref().err(), p.as_ref().err()));
                                }
                            }
                        }
                        (x, y) => {
                            leaf.ob_bool(&format!("C18.chunks[{cut}].converted"), false, &format!("a chunk was refused: {:?} {:?}", x.err().map(|e| e.to_string()), y.err().map(|e| e.to_string())));
                        }
                    }
                }
            }
        }
    }
    leaf
}

fn leaf_mut(l: &mut Leaf) -> &mut Leaf {
    l
}

/// C19: one Stock Plan Activity row against an awards file with entries at the gaps given by the skeleton
pub fn c19(sk: &Skeleton) -> Leaf {
    let rows = rows_of(sk);
    let aw = awards_of(sk);
    let mut leaf = Leaf { extra: json!({"rows": rows.iter().map(|r| format!("{} {} {}", us(r.date), r.action, r.symbol)).collect::<Vec<_>>(), "awards": sk.raw["opts"]["awards"].clone()}), ..Default::default() };
    let res = convert(&rows, aw.as_deref());
    // an awards file that itself is malformed (vesting action with empty details) is an error of its own
    let malformed = aw.as_ref().map(|a| a.iter().any(|x| x.empty_details && matches!(x.action.as_deref(), Some("Deposit") | Some("Lapse") | Some("Sale") | Some("Forced Quick Sell")))).unwrap_or(false);
    let rsu: Vec<&Row> = rows.iter().filter(|r| r.action == "Stock Plan Activity").collect();
    match &res {
        Err(e) => {
            leaf.outcome = "err".into();
            leaf.msg = e.to_string();
            if malformed {
                leaf.ob_bool("C19.vesting-entry-without-details-is-an-error", matches!(e, ConvertError::InvalidTransaction(_)), &leaf.msg.clone());
                return leaf;
            }
            // refused only if some deposit row has no entry on its date or in the 7 days before, naming that row
            let missing: Vec<&&Row> = rsu.iter().filter(|r| aw.as_deref().and_then(|a| expected_award(a, &r.symbol, r.date)).is_none()).collect();
            let named = matches!(e, ConvertError::MissingFairMarketValue { date, symbol } if missing.iter().any(|r| &r.symbol == symbol && date.contains(&r.date.to_string())));
            leaf.ob_bool("C19.refused-only-without-entry-in-window", named, &format!("{} (rows without entry: {})", leaf.msg, missing.len()));
        }
        Ok(out) => {
            leaf.outcome = "ok".into();
            leaf.ob_bool("C19.vesting-entry-without-details-is-an-error", !malformed, "awards file with an empty vesting entry accepted");
            let parsed = match cgt_core::parser::parse_file(&out.cgt_content) {
                Ok(p) => p,
                Err(e) => {
                    leaf.ob_bool("C19.output-is-valid-dsl", false, &format!("{e}"));
                    return leaf;
                }
            };
            let buys: Vec<&Transaction> = parsed.iter().filter(|t| kind_of(t).0 == "BUY").collect();
            let mut problems = Vec::new();
            let mut atoms = Vec::new();
            let mut want: Vec<(NaiveDate, &Row, Decimal)> = Vec::new();
            for r in &rsu {
                match aw.as_deref().and_then(|a| expected_award(a, &r.symbol, r.date)) {
                    None => problems.push(format!("deposit of {} on {} converted although no awards entry lies on that date or in the 7 days before", r.symbol, r.date)),
                    Some((d, p)) => want.push((d, r, p)),
                }
            }
            want.sort_by_key(|w| w.0);
            if buys.len() != want.len() {
                problems.push(format!("{} BUY lines for {} deposit rows", buys.len(), want.len()));
            }
            for (b, (d, r, p)) in buys.iter().zip(want.iter()) {
                let (_, q, price, fees, _, _) = kind_of(b);
                if b.date != *d {
                    problems.push(format!("deposit {} {} dated {}, awards entry gives {}", r.symbol, r.date, b.date, d));
                }
                atoms.push(vx::eq_l(&format!("acquisition price of {} {}", r.symbol, r.date), price, *p));
                atoms.push(vx::eq_l(&format!("quantity of {} {}", r.symbol, r.date), q, r.q));
                atoms.push(vx::eq_l(&format!("no fees on a vest {} {}", r.symbol, r.date), fees, Decimal::ZERO));
            }
            leaf.sig = json!({"ok": true, "buys": buys.iter().map(|b| b.date.to_string()).collect::<Vec<_>>()});
            leaf.ob_bool("C19.vest-date", problems.is_empty(), &problems.join("; "));
            leaf.ob("C19.vest-price", &vx::and(&atoms));
        }
    }
    leaf
}

/// Byte-transfer map of the converter's free-text fields (for the PEGSMT free-text query): for every byte b < 0x80 the
/// Description / Symbol of an unknown-action row is "x{b}y"; reports what stands between "x" and "y" in the output.
pub fn c18_bytes(_sk: &Skeleton) -> Leaf {
    let mut leaf = Leaf { outcome: "ok".into(), ..Default::default() };
    let mut maps = serde_json::Map::new();
    let mut template = String::new();
    for field in ["Description", "Symbol"] {
        let mut m: Vec<Value> = Vec::new();
        for b in 0u8..128 {
            let probe = format!("x{}y", b as char);
            let mut row = json!({"Date": "01/10/2024", "Action": "Mystery Action", "Symbol": "ZZ", "Description": "d", "Quantity": "", "Price": "", "Fees & Comm": "", "Amount": ""});
            row[field] = json!(probe);
            let tj = json!({"BrokerageTransactions": [row]}).to_string();
            let out = SchwabConverter::new().convert(&SchwabInput { transactions_json: tj, awards_json: None });
            match out {
                Ok(o) => {
                    // the line(s) of the output from the one holding "x" onwards
                    let text = o.cgt_content;
                    let found = text.find("Mystery Action").and_then(|i| {
                        let rest = &text[i..];
                        let xs = rest.find('x')?;
                        let ys = rest[xs + 1..].find('y')?;
                        Some(rest[xs + 1..xs + 1 + ys].to_string())
                    });
                    if template.is_empty() {
                        if let Some(l) = text.lines().find(|l| l.contains("Mystery Action") && l.starts_with('#')) {
                            template = l.to_string();
                        }
                    }
                    m.push(match found {
                        Some(s) => json!(s.bytes().collect::<Vec<u8>>()),
                        None => Value::Null,
                    });
                }
                Err(e) => m.push(json!({"err": e.to_string()})),
            }
        }
        maps.insert(field.to_string(), Value::Array(m));
    }
    // the fields are treated byte-wise: 50 pseudo-random 6-byte strings (seeded) must come out as the per-byte images
    let mut seed = _sk.opt_i64("seed").unwrap_or(1) as u64 ^ 0x9E3779B97F4A7C15;
    let mut multi_ok = 0;
    let mut multi_bad: Vec<String> = Vec::new();
    let desc_map = maps["Description"].as_array().cloned().unwrap_or_default();
    for _ in 0..50 {
        let mut probe = String::from("x");
        let mut want: Vec<u8> = Vec::new();
        for _ in 0..6 {
            seed = seed.wrapping_mul(6364136223846793005).wrapping_add(1442695040888963407);
            let mut b = ((seed >> 33) % 128) as u8;
            if b == b'x' || b == b'y' {
                b = b'q';
            }
            probe.push(b as char);
            match desc_map.get(b as usize).and_then(|v| v.as_array()) {
                Some(img) => want.extend(img.iter().filter_map(|x| x.as_u64()).map(|x| x as u8)),
                None => want.push(b),
            }
        }
        probe.push('y');
        let row = json!({"Date": "01/10/2024", "Action": "Mystery Action", "Symbol": "ZZ", "Description": probe, "Quantity": "", "Price": "", "Fees & Comm": "", "Amount": ""});
        let tj = json!({"BrokerageTransactions": [row]}).to_string();
        if let Ok(o) = SchwabConverter::new().convert(&SchwabInput { transactions_json: tj, awards_json: None }) {
            let text = o.cgt_content;
            let got = text.find("Mystery Action").and_then(|i| {
                let rest = &text[i..];
                let xs = rest.find("(x")?;
                let ys = rest[xs + 2..].rfind("y)")?;
                Some(rest[xs + 2..xs + 2 + ys].as_bytes().to_vec())
            });
            if got.as_deref() == Some(&want[..]) {
                multi_ok += 1;
            } else {
                multi_bad.push(format!("{:?} -> {:?}, per-byte images give {:?}", probe, got, want));
            }
        }
    }
    leaf.extra = json!({"maps": maps, "template": template, "multi_ok": multi_ok, "multi_bad": multi_bad});
    leaf
}
