//! Relational properties: the real code is run several times in one symbolic process on inputs built from
//! the SAME symbols, and the outputs are proved equal.
//!   C06 line order / fill splitting / file split      C09 independence of securities
//!   C10 splits only rescale                          C11 capital returns, accumulations, dividends
//!   C12 earlier years stable under later additions

use super::common::*;
use crate::ledger::{self, Kind, Line, Mode, Skeleton};
use crate::spec;
use crate::{Leaf, vx};
use cgt_core::CgtError;
use rust_decimal::Decimal;
use serde_json::json;
use std::collections::BTreeMap;

type Res = Result<Outcome, CgtError>;

fn level(sk: &Skeleton) -> String {
    sk.opt_str("level").unwrap_or_else(|| "matcher".into())
}

fn run_lines(sk: &Skeleton, lines: &[Line]) -> Res {
    run_level(&level(sk), sk, &ledger::to_transactions(lines))
}

/// Compare two outcomes. `qscale(ticker, day)` = factor by which quantities of `b` on that disposal day exceed those of `a`
/// (1 everywhere except for C10 twins). Only disposals/holdings selected by `keep` are compared.
#[allow(clippy::too_many_arguments)]
pub fn compare(
    leaf: &mut Leaf,
    tag: &str,
    a: &Res,
    b: &Res,
    qscale: &dyn Fn(&str, i64) -> Decimal,
    keep_disposal: &dyn Fn(&IDisposal) -> bool,
    keep_holding: &dyn Fn(&str) -> bool,
    flags: u8,
) {
    let same_error_needed = false;
    let years = flags & YEARS != 0;
    let dividends = flags & NO_DIVIDENDS == 0;
    match (a, b) {
        (Err(ea), Err(eb)) => {
            if same_error_needed {
                let (ca, cb) = (err_class(ea), err_class(eb));
                leaf.ob_bool(&format!("{tag}.same-refusal"), ca == cb, &format!("refused for different reasons: {ca} vs {cb}"));
            }
        }
        (Ok(_), Err(e)) | (Err(e), Ok(_)) => {
            let which = if a.is_ok() { "variant" } else { "original" };
            // (lots kept apart: whether a capital return is absorbed lot by lot is part of the recorded finding)
            let m = if flags & LOTS_KEPT_APART != 0 { "~unmerged" } else { "" };
            leaf.ob_bool(&format!("{tag}{m}.same-acceptance"), false, &format!("{which} refused: {e}"));
        }
        (Ok(oa), Ok(ob)) => {
            let da: Vec<IDisposal> = oa.disposals.iter().filter(|d| keep_disposal(d)).cloned().collect();
            let db: Vec<IDisposal> = ob.disposals.iter().filter(|d| keep_disposal(d)).cloned().collect();
            // one disposal per security and day, and the same (security, day) pairs on both sides - whatever the line order,
            // also where same-day lots stay unmerged (the recorded finding concerns legs and their costs, not this)
            let key = |v: &[IDisposal]| -> Vec<(String, i64)> {
                let mut k: Vec<(String, i64)> = v.iter().map(|d| (d.ticker.clone(), d.day)).collect();
                k.sort();
                k
            };
            let (xa, xb) = (key(&da), key(&db));
            let dup = |k: &[(String, i64)]| k.windows(2).any(|w| w[0] == w[1]);
            leaf.ob_bool(&format!("{tag}.one-disposal-per-security-and-day"), xa == xb && !dup(&xa) && !dup(&xb), &format!("disposals {xa:?} vs {xb:?}"));
            let (ga, gb) = (aggregate(&da), aggregate(&db));
            let ka: Vec<&LegKey> = ga.keys().collect();
            let kb: Vec<&LegKey> = gb.keys().collect();
            if !leaf.ob_bool(&format!("{tag}.same-legs"), ka == kb, &format!("leg sets differ: {ka:?} vs {kb:?}")) {
                return;
            }
            let counts_equal = ga.iter().all(|(k, v)| gb[k].3 == v.3);
            // (for fills that the tool keeps as separate lots the number of legs is the recorded finding; the figures are not)
            let lc = if flags & LOTS_KEPT_APART != 0 { format!("{tag}~unmerged.same-leg-count") } else { format!("{tag}.same-leg-count") };
            leaf.ob_bool(&lc, counts_equal, "a (rule, acquisition date) is reported as a different number of legs");
            let mut atoms = Vec::new();
            for (k, v) in &ga {
                let w = &gb[k];
                let s = qscale(&k.0, k.1);
                atoms.push(vx::eq_l(&format!("{tag} qty {k:?}"), v.0 * s, w.0));
                atoms.push(vx::eq_l(&format!("{tag} cost {k:?}"), v.1, w.1));
                atoms.push(vx::eq_l(&format!("{tag} gain {k:?}"), v.2, w.2));
            }
            let tol = Decimal::new(1, 10);
            for d in &da {
                if let Some(e) = db.iter().find(|e| e.ticker == d.ticker && e.day == d.day) {
                    atoms.push(vx::eq_l(&format!("{tag} disposal qty {} {}", d.ticker, d.day), d.qty * qscale(&d.ticker, d.day), e.qty));
                    atoms.push(vx::near_l(&format!("{tag} gross {} {}", d.ticker, d.day), d.gross, e.gross, tol));
                    atoms.push(vx::near_l(&format!("{tag} proceeds {} {}", d.ticker, d.day), d.proceeds, e.proceeds, tol));
                }
            }
            let ha: Vec<&String> = oa.holdings.keys().filter(|t| keep_holding(t)).collect();
            let hb: Vec<&String> = ob.holdings.keys().filter(|t| keep_holding(t)).collect();
            // a zero holding may or may not be listed; compare quantities with absent = 0
            let mut all: Vec<&String> = ha.iter().chain(hb.iter()).cloned().collect();
            all.sort();
            all.dedup();
            for t in all {
                let x = oa.holdings.get(t).copied().unwrap_or((Decimal::ZERO, Decimal::ZERO));
                let y = ob.holdings.get(t).copied().unwrap_or((Decimal::ZERO, Decimal::ZERO));
                atoms.push(vx::eq_l(&format!("{tag} holding qty {t}"), x.0, y.0));
                atoms.push(vx::eq_l(&format!("{tag} holding cost {t}"), x.1, y.1));
            }
            // report level: tax-year figures
            if let (Some(ra), Some(rb)) = (&oa.report, &ob.report) {
                if years && keep_all_years(keep_disposal, &oa.disposals) {
                    let ya: Vec<u16> = ra.tax_years.iter().map(|y| y.period.start_year()).collect();
                    let yb: Vec<u16> = rb.tax_years.iter().map(|y| y.period.start_year()).collect();
                    if leaf.ob_bool(&format!("{tag}.same-years"), ya == yb, &format!("tax years {ya:?} vs {yb:?}")) {
                        for (x, y) in ra.tax_years.iter().zip(rb.tax_years.iter()) {
                            let yr = x.period.start_year();
                            atoms.push(vx::eq_l(&format!("{tag} total_gain {yr}"), x.total_gain, y.total_gain));
                            atoms.push(vx::eq_l(&format!("{tag} total_loss {yr}"), x.total_loss, y.total_loss));
                            atoms.push(vx::eq_l(&format!("{tag} net_gain {yr}"), x.net_gain, y.net_gain));
                            if dividends {
                                atoms.push(vx::eq_l(&format!("{tag} dividend_income {yr}"), x.dividend_income, y.dividend_income));
                                atoms.push(vx::eq_l(&format!("{tag} dividend_tax {yr}"), x.dividend_tax_paid, y.dividend_tax_paid));
                            }
                            atoms.push(vx::lit(x.disposals.len() == y.disposals.len(), &format!("{tag} disposal count {yr}")));
                        }
                    }
                }
            }
            leaf.ob(&format!("{tag}.same-figures"), &vx::and(&atoms));
        }
    }
}

fn keep_all_years(keep: &dyn Fn(&IDisposal) -> bool, ds: &[IDisposal]) -> bool {
    ds.iter().all(|d| keep(d))
}

/// compare tax-year figures too (only meaningful when the two runs cover the same disposals)
pub const YEARS: u8 = 1;
/// ... except the dividend totals
const NO_DIVIDENDS: u8 = 2;
/// the variant is known to leave same-day lots unmerged: its leg COUNT falls under the recorded finding, its figures do not
const LOTS_KEPT_APART: u8 = 4;

/// after the tool's stable sort by date: are two same-day same-kind trade lines of one security separated by another line?
/// (such lines are not merged into one lot / one sale by the tool: known finding F-C06)
fn unmerged(lines: &[Line]) -> bool {
    let mut v: Vec<&Line> = lines.iter().collect();
    v.sort_by_key(|l| l.day);
    for i in 0..v.len() {
        if !matches!(v[i].kind, Kind::Buy | Kind::Sell) {
            continue;
        }
        let mut gap = false;
        for j in i + 1..v.len() {
            if v[j].day != v[i].day {
                break;
            }
            if v[j].kind == v[i].kind && v[j].ticker == v[i].ticker {
                if gap {
                    return true;
                }
            } else {
                gap = true;
            }
        }
    }
    false
}
fn mark(lines: &[Line]) -> &'static str {
    if unmerged(lines) { "~unmerged" } else { "" }
}

pub fn one(_: &str, _: i64) -> Decimal {
    Decimal::ONE
}
pub fn all_d(_: &IDisposal) -> bool {
    true
}
pub fn all_h(_: &str) -> bool {
    true
}

fn permutations(n: usize, limit_generators: bool) -> Vec<Vec<usize>> {
    let id: Vec<usize> = (0..n).collect();
    if !limit_generators {
        let mut out = Vec::new();
        let mut p = id.clone();
        permute(&mut p, 0, &mut out);
        out.retain(|x| *x != id);
        return out;
    }
    // generators of the symmetric group: adjacent transpositions, reversal, rotation
    let mut out = Vec::new();
    for i in 0..n.saturating_sub(1) {
        let mut p = id.clone();
        p.swap(i, i + 1);
        out.push(p);
    }
    let mut r = id.clone();
    r.reverse();
    out.push(r);
    let mut rot = id.clone();
    rot.rotate_left(1);
    out.push(rot);
    out.sort();
    out.dedup();
    out.retain(|x| *x != id);
    out
}
fn permute(p: &mut Vec<usize>, k: usize, out: &mut Vec<Vec<usize>>) {
    if k == p.len() {
        out.push(p.clone());
        return;
    }
    for i in k..p.len() {
        p.swap(k, i);
        permute(p, k + 1, out);
        p.swap(k, i);
    }
}

mod cli_extract {
    // the CLI's own `read_and_concatenate_files`, extracted from /repo/crates/cgt-cli/src/main.rs by build.rs
    #![allow(dead_code, unused_imports, clippy::all)]
    include!(concat!(env!("OUT_DIR"), "/cli_extract.rs"));
}

pub fn cli_fx_folder(p: &std::path::Path) -> Option<Vec<cgt_money::RateFile>> {
    cli_extract::fx_folder(p)
}

// ------------------------------------------------------------------------------------------------ C06
pub fn c06(sk: &Skeleton) -> Leaf {
    let mode = Mode::parse(&sk.opt_str("mode").unwrap_or_else(|| "QPF".into()));
    let lines = ledger::instantiate(sk, "lines", &mode);
    let mut leaf = Leaf { extra: json!({"ledger": ledger::describe(&lines)}), ..Default::default() };
    let variant = sk.opt_str("variant").unwrap_or_else(|| "perm".into());
    let base = run_lines(sk, &lines);
    leaf.sig = outcome_signature(&base);
    leaf.outcome = if base.is_ok() { "ok".into() } else { "err".into() };
    if let Err(e) = &base {
        leaf.msg = e.to_string();
    }
    match variant.as_str() {
        "perm" => {
            let gen_only = match sk.opt_str("perms").as_deref() {
                Some("all") => lines.len() > 4,
                _ => lines.len() > 3,
            };
            let perms = permutations(lines.len(), gen_only);
            leaf.extra["variants"] = json!(perms.len());
            for p in perms {
                let v: Vec<Line> = p.iter().map(|&i| lines[i].clone()).collect();
                let r = run_lines(sk, &v);
                let tag = format!("C06.order{}[{}]", mark(&v), p.iter().map(|i| i.to_string()).collect::<Vec<_>>().join(""));
                compare(&mut leaf, &tag, &base, &r, &one, &all_d, &all_h, YEARS);
            }
        }
        "fills" => {
            // each BUY/SELL recorded as two same-day fills with the same total quantity, consideration and fees
            let uniform_only = sk.opt_str("fills").as_deref() == Some("uniform");
            for (i, l) in lines.iter().enumerate() {
                if !matches!(l.kind, Kind::Buy | Kind::Sell) {
                    continue;
                }
                let last_same_day = lines.iter().rposition(|x| x.day == l.day).unwrap_or(i);
                if last_same_day > i {
                    // fills of equal unit price and pro-rata fees (a half and a quarter of the trade), the second one after
                    // every other line of that day: every share of the day then costs the same whichever lot it is taken
                    // from, so the report must not move even where the tool keeps the two fills as separate lots
                    for (tag, den) in [("half", 2), ("quarter", 4)] {
                        let d = Decimal::from(den);
                        let ua = Line { q: l.q / d, p: l.p, f: l.f / d, ..l.clone() };
                        let ub = Line { q: l.q - l.q / d, p: l.p, f: l.f - l.f / d, ..l.clone() };
                        let mut v3 = lines.clone();
                        v3[i] = ua;
                        v3.insert(last_same_day + 1, ub);
                        let r3 = run_lines(sk, &v3);
                        let fl = if mark(&v3).is_empty() { YEARS } else { YEARS | LOTS_KEPT_APART };
                        compare(&mut leaf, &format!("C06.fills-uniform-separated-{tag}[{i}]"), &base, &r3, &one, &all_d, &all_h, fl);
                    }
                }
                if uniform_only {
                    continue;
                }
                let zero = Decimal::ZERO;
                let q1 = vx::fresh(&format!("fq{i}"));
                vx::assume(&vx::and(&[vx::gt(q1, zero), vx::lt(q1, l.q)]));
                let q2 = l.q - q1;
                let p1 = vx::fresh(&format!("fp{i}"));
                vx::assume(&vx::and(&[vx::ge(p1, zero), vx::le(q1 * p1, l.q * l.p)]));
                let p2 = (l.q * l.p - q1 * p1) / q2;
                let f1 = vx::fresh(&format!("ff{i}"));
                vx::assume(&vx::and(&[vx::ge(f1, zero), vx::le(f1, l.f)]));
                let f2 = l.f - f1;
                let a = Line { q: q1, p: p1, f: f1, ..l.clone() };
                let b = Line { q: q2, p: p2, f: f2, ..l.clone() };
                // adjacent fills
                let mut v1 = lines.clone();
                v1[i] = a.clone();
                v1.insert(i + 1, b.clone());
                let r1 = run_lines(sk, &v1);
                compare(&mut leaf, &format!("C06.fills-adjacent{}[{i}]", mark(&v1)), &base, &r1, &one, &all_d, &all_h, YEARS);
                // second fill after every other line of that day (other securities, opposite trades)
                if last_same_day > i {
                    let mut v2 = lines.clone();
                    v2[i] = a;
                    v2.insert(last_same_day + 1, b);
                    let r2 = run_lines(sk, &v2);
                    compare(&mut leaf, &format!("C06.fills-separated{}[{i}]", mark(&v2)), &base, &r2, &one, &all_d, &all_h, YEARS);
                }
            }
        }
        "files" => {
            // the ledger written by the real DSL writer, cut into two files at every line boundary (with and
            // without a final newline / trailing comment in the first file), read back by the CLI's own
            // read_and_concatenate_files and parsed by the real parser
            let txs = ledger::to_transactions(&lines);
            let dir = std::env::temp_dir().join(format!("symx-c06-{}", std::process::id()));
            let _ = std::fs::create_dir_all(&dir);
            let dsl: Vec<String> = txs.iter().map(cgt_core::dsl::transaction_to_dsl).collect();
            let mut covered = true;
            for cut in 0..=dsl.len() {
                for (ei, ending) in ["", "\n", "\n# end of first file", "\r\n"].iter().enumerate() {
                    let f1 = dir.join("a.cgt");
                    let f2 = dir.join("b.cgt");
                    let _ = std::fs::write(&f1, format!("{}{}", dsl[..cut].join("\n"), ending));
                    let _ = std::fs::write(&f2, dsl[cut..].join("\n"));
                    let joined = match cli_extract::concat(&[f1.clone(), f2.clone()]) {
                        Some(s) => s,
                        None => {
                            covered = false;
                            continue;
                        }
                    };
                    let tag = format!("C06.files[cut{cut},end{ei}]");
                    match cgt_core::parser::parse_file(&joined) {
                        Ok(t2) => {
                            let r = run_level(&level(sk), sk, &t2);
                            compare(&mut leaf, &tag, &base, &r, &one, &all_d, &all_h, YEARS);
                        }
                        Err(e) => {
                            leaf.ob_bool(&format!("{tag}.parses"), false, &format!("two-file input rejected: {e}"));
                        }
                    }
                }
            }
            let _ = std::fs::remove_dir_all(&dir);
            leaf.extra["cli_concat_extracted"] = json!(covered);
        }
        o => panic!("unknown C06 variant {o}"),
    }
    leaf
}

// ------------------------------------------------------------------------------------------------ C09
fn interleavings(lines: &[Line]) -> Vec<Vec<Line>> {
    // all reorderings within each day that keep every security's own relative order
    let mut days: Vec<i64> = lines.iter().map(|l| l.day).collect();
    days.sort();
    days.dedup();
    let mut results: Vec<Vec<Line>> = vec![vec![]];
    for d in days {
        let day_lines: Vec<Line> = lines.iter().filter(|l| l.day == d).cloned().collect();
        let a: Vec<Line> = day_lines.iter().filter(|l| l.ticker == "A").cloned().collect();
        let b: Vec<Line> = day_lines.iter().filter(|l| l.ticker != "A").cloned().collect();
        let mut merges = Vec::new();
        merge(&a, &b, vec![], &mut merges);
        let mut next = Vec::new();
        for r in &results {
            for m in &merges {
                let mut x = r.clone();
                x.extend(m.iter().cloned());
                next.push(x);
            }
        }
        results = next;
    }
    results
}
fn merge(a: &[Line], b: &[Line], acc: Vec<Line>, out: &mut Vec<Vec<Line>>) {
    if a.is_empty() && b.is_empty() {
        out.push(acc);
        return;
    }
    if !a.is_empty() {
        let mut x = acc.clone();
        x.push(a[0].clone());
        merge(&a[1..], b, x, out);
    }
    if !b.is_empty() {
        let mut x = acc;
        x.push(b[0].clone());
        merge(a, &b[1..], x, out);
    }
}

pub fn c09(sk: &Skeleton) -> Leaf {
    let mode = Mode::parse(&sk.opt_str("mode").unwrap_or_else(|| "QPF".into()));
    let lines = ledger::instantiate(sk, "lines", &mode);
    let mut leaf = Leaf { extra: json!({"ledger": ledger::describe(&lines)}), ..Default::default() };
    let tickers = spec::tickers(&lines);
    let mut proj: BTreeMap<String, Res> = BTreeMap::new();
    for t in &tickers {
        let only: Vec<Line> = lines.iter().filter(|l| &l.ticker == t).cloned().collect();
        proj.insert(t.clone(), run_lines(sk, &only));
    }
    let orders = interleavings(&lines);
    leaf.extra["interleavings"] = json!(orders.len());
    let mut first = true;
    for (oi, ord) in orders.iter().enumerate() {
        let all = run_lines(sk, ord);
        if first {
            leaf.sig = outcome_signature(&all);
            leaf.outcome = if all.is_ok() { "ok".into() } else { "err".into() };
            if let Err(e) = &all {
                leaf.msg = e.to_string();
            }
            first = false;
        }
        match &all {
            Ok(_) => {
                for t in &tickers {
                    let t2 = t.clone();
                    let t3 = t.clone();
                    compare(
                        &mut leaf,
                        &format!("C09.{t}-alone{}[{oi}]", mark(ord)),
                        &proj[t],
                        &all,
                        &one,
                        &move |d: &IDisposal| d.ticker == t2,
                        &move |h: &str| h == t3,
                        0,
                    );
                }
                // tax-year totals add up
                if let Some(rep) = all.as_ref().ok().and_then(|o| o.report.as_ref()) {
                    let mut atoms = Vec::new();
                    for y in &rep.tax_years {
                        let yr = y.period.start_year();
                        let mut g = Decimal::ZERO;
                        let mut l = Decimal::ZERO;
                        let mut n = 0usize;
                        for t in &tickers {
                            if let Ok(o) = &proj[t] {
                                if let Some(py) = o.report.as_ref().and_then(|r| r.tax_years.iter().find(|p| p.period.start_year() == yr)) {
                                    g = g + py.total_gain;
                                    l = l + py.total_loss;
                                    n += py.disposals.len();
                                }
                            }
                        }
                        atoms.push(vx::eq_l(&format!("total_gain {yr} adds up"), y.total_gain, g));
                        atoms.push(vx::eq_l(&format!("total_loss {yr} adds up"), y.total_loss, l));
                        atoms.push(vx::lit(n == y.disposals.len(), &format!("disposal count {yr} adds up")));
                    }
                    leaf.ob(&format!("C09.year-totals-add{}[{oi}]", mark(ord)), &vx::and(&atoms));
                }
            }
            Err(e) => {
                // the whole ledger is refused iff some security's own ledger is, and for that security
                let msg = e.to_string();
                let bad: Vec<&String> = tickers.iter().filter(|t| proj[*t].is_err()).collect();
                let names_bad = bad.iter().any(|t| msg.contains(&format!(" {t} ")));
                leaf.ob_bool(&format!("C09.refusal-is-local{}[{oi}]", mark(ord)), !bad.is_empty() && names_bad, &format!("whole ledger refused ({msg}) but the securities alone: {:?} refused", bad));
            }
        }
    }
    // ticker case: the same security in every input format
    let txs = ledger::to_transactions(&lines);
    let dsl = cgt_core::dsl::transactions_to_dsl(&txs);
    let lower = dsl.replace(" A ", " a ").replace(" B ", " b ");
    let p1 = cgt_core::parser::parse_file(&lower);
    leaf.ob_bool("C09.ticker-case-dsl", p1.as_ref().map(|t| *t == txs).unwrap_or(false), "lower-case tickers in the DSL parse to different transactions");
    let js = serde_json::to_string(&txs).unwrap_or_default();
    let lower_js = js.replace("\"ticker\":\"A\"", "\"ticker\":\"a\"").replace("\"ticker\":\"B\"", "\"ticker\":\"b\"");
    let p2: Result<Vec<cgt_core::Transaction>, _> = serde_json::from_str(&lower_js);
    leaf.ob_bool("C09.ticker-case-json", p2.as_ref().map(|t| *t == txs).unwrap_or(false), "lower-case tickers in JSON read back as different transactions");
    // JSON accepts any string as a ticker: cased letters outside ASCII too
    let mk = |t: &str| format!("[{{\"date\":\"2024-01-10\",\"ticker\":\"{t}\",\"action\":\"BUY\",\"amount\":\"1\",\"price\":\"2\"}}]");
    let a: Result<Vec<cgt_core::Transaction>, _> = serde_json::from_str(&mk("soci\u{e9}t\u{e9}"));
    let b: Result<Vec<cgt_core::Transaction>, _> = serde_json::from_str(&mk("SOCI\u{c9}T\u{c9}"));
    let same = match (&a, &b) {
        (Ok(x), Ok(y)) => x.len() == 1 && y.len() == 1 && x[0].ticker == y[0].ticker,
        _ => false,
    };
    leaf.ob_bool("C09.ticker-case-json-non-ascii", same, "tickers differing only in the case of a non-ASCII letter are different securities in JSON input");
    leaf
}

// ------------------------------------------------------------------------------------------------ C10
/// the ledger rewritten in post-split units: the split/unsplit line `si` removed, earlier quantities of that
/// security multiplied by the ratio and earlier unit prices divided by it
fn rescaled_twin(lines: &[Line], si: usize) -> Vec<Line> {
    let s = &lines[si];
    let r = if s.kind == Kind::Split { s.q } else { Decimal::ONE / s.q };
    let mut out = Vec::new();
    for (i, l) in lines.iter().enumerate() {
        if i == si {
            continue;
        }
        // "before the split" = dated up to and including the split day (a day's split acts after its trades)
        if l.ticker == s.ticker && l.day <= s.day {
            match l.kind {
                Kind::Buy | Kind::Sell => out.push(Line { q: l.q * r, p: l.p / r, ..l.clone() }),
                Kind::CapReturn | Kind::Accum => out.push(Line { q: l.q * r, ..l.clone() }),
                _ => out.push(l.clone()),
            }
        } else {
            out.push(l.clone());
        }
    }
    out
}

pub fn c10(sk: &Skeleton) -> Leaf {
    let mode = Mode::parse(&sk.opt_str("mode").unwrap_or_else(|| "QPF".into()));
    let lines = ledger::instantiate(sk, "lines", &mode);
    let mut leaf = Leaf { extra: json!({"ledger": ledger::describe(&lines)}), ..Default::default() };
    let base = run_lines(sk, &lines);
    leaf.sig = outcome_signature(&base);
    leaf.outcome = if base.is_ok() { "ok".into() } else { "err".into() };
    if let Err(e) = &base {
        leaf.msg = e.to_string();
    }
    let variant = sk.opt_str("variant").unwrap_or_else(|| "twin".into());
    if variant == "noop" {
        // SPLIT r immediately followed by UNSPLIT r (no trade between them) changes nothing
        let without: Vec<Line> = lines.iter().filter(|l| !matches!(l.kind, Kind::Split | Kind::Unsplit)).cloned().collect();
        let r = run_lines(sk, &without);
        compare(&mut leaf, "C10.split-unsplit-noop", &r, &base, &one, &all_d, &all_h, YEARS);
        return leaf;
    }
    // remove the splits one at a time, last first, so that each twin is again a ledger in the units after that split
    let mut cur = lines.clone();
    let mut cur_res = base;
    let mut step = 0;
    while let Some(si) = cur.iter().rposition(|l| matches!(l.kind, Kind::Split | Kind::Unsplit)) {
        let s = cur[si].clone();
        let r = if s.kind == Kind::Split { s.q } else { Decimal::ONE / s.q };
        let twin = rescaled_twin(&cur, si);
        let tres = run_lines(sk, &twin);
        let (st, sd) = (s.ticker.clone(), s.day);
        let scale = move |t: &str, day: i64| if t == st && day <= sd { r } else { Decimal::ONE };
        compare(&mut leaf, &format!("C10.rescaled-twin[{step}]"), &cur_res, &tres, &scale, &all_d, &all_h, YEARS);
        cur = twin;
        cur_res = tres;
        step += 1;
    }
    leaf
}

// ------------------------------------------------------------------------------------------------ C11
pub fn c11(sk: &Skeleton) -> Leaf {
    let mode = Mode::parse(&sk.opt_str("mode").unwrap_or_else(|| "QPF".into()));
    let lines = ledger::instantiate(sk, "lines", &mode);
    let mut leaf = Leaf { extra: json!({"ledger": ledger::describe(&lines)}), ..Default::default() };
    let variant = sk.opt_str("variant").unwrap_or_else(|| "events".into());
    if variant == "cancel" {
        // every CAPRETURN is paired with an ACCUMULATION of the same net amount on the same date
        let mut with = lines.clone();
        for l in lines.iter().filter(|l| l.kind == Kind::CapReturn) {
            with.push(Line { kind: Kind::Accum, p: l.p - l.f, f: Decimal::ZERO, idx: with.len(), ..l.clone() });
        }
        for l in lines.iter().filter(|l| l.kind == Kind::CapReturn) {
            vx::assume(&vx::ge(l.p, l.f));
        }
        with.sort_by_key(|l| l.day);
        let without: Vec<Line> = lines.iter().filter(|l| l.kind != Kind::CapReturn).cloned().collect();
        let a = run_lines(sk, &without);
        let b = run_lines(sk, &with);
        leaf.sig = outcome_signature(&b);
        leaf.outcome = if b.is_ok() { "ok".into() } else { "err".into() };
        match (&a, &b) {
            (Ok(_), Err(e)) if e.to_string().contains("S122") => {
                // the return alone may exceed the cost: that refusal is C11's own clause (checked below in "events")
                leaf.outcome = "err-s122".into();
            }
            _ => compare(&mut leaf, "C11.equal-return-and-accumulation-cancel", &a, &b, &one, &all_d, &all_h, YEARS),
        }
        return leaf;
    }
    for l in lines.iter().filter(|l| l.kind == Kind::CapReturn) {
        vx::assume(&vx::ge(l.p, l.f)); // a net return is not negative
    }
    let res = run_lines(sk, &lines);
    leaf.sig = outcome_signature(&res);
    match &res {
        Err(e) => {
            leaf.outcome = "err".into();
            leaf.msg = e.to_string();
            let msg = e.to_string();
            if msg.contains("CAPRETURN") {
                leaf.outcome = "err-s122".into();
                leaf.ob_bool("C11.refusal-cites-s122", msg.contains("S122"), "capital-return refusal does not cite TCGA92 s122");
                // refused only when the return cannot be absorbed: it must exceed the expenditure left on SOME lot it lands on,
                // hence at least its pro-rata share of the cheapest possible lot; in particular a return of zero is never refused
                let net: Vec<vx::B> = lines.iter().filter(|l| l.kind == Kind::CapReturn).map(|l| vx::gt(l.p - l.f, Decimal::ZERO)).collect();
                leaf.ob("C11.zero-return-never-refused", &vx::or(&net));
            }
        }
        Ok(o) => {
            leaf.outcome = "ok".into();
            // (4) no leg or holding with negative allowable cost
            let mut atoms = Vec::new();
            for d in &o.disposals {
                for l in &d.legs {
                    atoms.push(vx::le_l(&format!("leg cost >= 0 {} day {} rule {}", d.ticker, d.day, l.rule), Decimal::ZERO, l.cost));
                }
            }
            for (t, h) in &o.holdings {
                atoms.push(vx::le_l(&format!("holding cost >= 0 {t}"), Decimal::ZERO, h.1));
            }
            leaf.ob("C11.no-negative-cost", &vx::and(&atoms));
            // (1)+(2)+(6): remove the event lines one at a time
            for (i, ev) in lines.iter().enumerate() {
                if !matches!(ev.kind, Kind::CapReturn | Kind::Accum | Kind::Dividend) {
                    continue;
                }
                let without: Vec<Line> = lines.iter().enumerate().filter(|(j, _)| *j != i).map(|(_, l)| l.clone()).collect();
                let r0 = run_lines(sk, &without);
                let Ok(o0) = &r0 else {
                    // removing an accumulation can make a later capital return exceed the cost: only that refusal is admissible
                    let m = r0.as_ref().err().map(|e| e.to_string()).unwrap_or_default();
                    leaf.ob_bool(&format!("C11.without-event[{i}]"), ev.kind == Kind::Accum && m.contains("S122"), &format!("ledger without the event line is refused: {m}"));
                    continue;
                };
                if ev.kind == Kind::Dividend {
                    let with_r: Res = Ok(o.clone());
                    compare(&mut leaf, &format!("C11.dividend-changes-nothing-else[{i}]"), &r0, &with_r, &one, &all_d, &all_h, YEARS | NO_DIVIDENDS);
                    continue;
                }
                let net = if ev.kind == Kind::Accum { ev.p } else { Decimal::ZERO - (ev.p - ev.f) };
                let total = |x: &Outcome, t: &str| -> Decimal {
                    sum(x.disposals.iter().filter(|d| d.ticker == t).flat_map(|d| d.legs.iter().map(|l| l.cost)))
                        + x.holdings.get(t).map(|h| h.1).unwrap_or(Decimal::ZERO)
                };
                let held = held_before(&lines, &ev.ticker, ev.day);
                let mut a2 = Vec::new();
                let moved = total(o, &ev.ticker) - total(o0, &ev.ticker);
                if held > Decimal::ZERO {
                    a2.push(vx::eq_l(&format!("event {i} moves cost by its net amount"), moved, net));
                } else {
                    a2.push(vx::eq_l(&format!("event {i} with nothing held moves no cost"), moved, Decimal::ZERO));
                }
                // other securities untouched
                for t in spec::tickers(&lines).iter().filter(|t| **t != ev.ticker) {
                    a2.push(vx::eq_l(&format!("event {i} leaves {t} alone"), total(o, t), total(o0, t)));
                }
                // legs identified with acquisitions made AFTER the event date are untouched
                let (ga, gb) = (aggregate(&o.disposals), aggregate(&o0.disposals));
                for (k, v) in &ga {
                    if let (Some(ad), Some(w)) = (k.3, gb.get(k)) {
                        if ad > ev.day && k.0 == ev.ticker {
                            a2.push(vx::eq_l(&format!("event {i}: leg on later acquisition {k:?} keeps its cost"), v.1, w.1));
                        }
                    }
                }
                leaf.ob(&format!("C11.event-moves-exactly-its-amount[{i}]"), &vx::and(&a2));
            }
        }
    }
    leaf
}

fn held_before(lines: &[Line], ticker: &str, day: i64) -> Decimal {
    let before: Vec<Line> = lines.iter().filter(|l| l.ticker == ticker && l.day < day).cloned().collect();
    spec::closing_holdings(&before).get(ticker).copied().unwrap_or(Decimal::ZERO)
}

// ------------------------------------------------------------------------------------------------ C12
pub fn c12(sk: &Skeleton) -> Leaf {
    let mode = Mode::parse(&sk.opt_str("mode").unwrap_or_else(|| "QPF".into()));
    let lines = ledger::instantiate(sk, "lines", &mode);
    let ncut = sk.opt_i64("prefix").expect("prefix length") as usize;
    let prefix: Vec<Line> = lines[..ncut].to_vec();
    let mut leaf = Leaf { extra: json!({"ledger": ledger::describe(&lines), "prefix_lines": ncut}), ..Default::default() };
    let a = run_lines(sk, &prefix);
    leaf.sig = outcome_signature(&a);
    let Ok(_) = &a else {
        leaf.outcome = "prefix-refused".into();
        return leaf;
    };
    let b = run_lines(sk, &lines);
    leaf.outcome = if b.is_ok() { "ok".into() } else { "err".into() };
    let last_prefix_day = prefix.iter().map(|l| l.day).max().unwrap_or(0);
    match &b {
        Err(e) => {
            let msg = e.to_string();
            leaf.msg = msg.clone();
            // the extended ledger may be refused only because of the added lines: the error names a suffix date
            let names_suffix = lines[ncut..].iter().any(|l| msg.contains(&l.date.to_string()));
            let names_prefix = prefix.iter().any(|l| msg.contains(&l.date.to_string()));
            leaf.ob_bool("C12.refusal-not-about-earlier-period", names_suffix && !names_prefix, &format!("extended ledger refused: {msg}"));
        }
        Ok(_) => {
            let keep = move |d: &IDisposal| d.day <= last_prefix_day;
            // holdings legitimately change; disposals of the prefix period must not
            compare(&mut leaf, "C12.earlier-disposals-unchanged", &a, &b, &one, &keep, &|_| false, 0);
            if let (Some(ra), Some(rb)) = (a.as_ref().ok().and_then(|o| o.report.as_ref()), b.as_ref().ok().and_then(|o| o.report.as_ref())) {
                let first_suffix = lines[ncut..].iter().map(|l| l.date).min();
                let mut atoms = Vec::new();
                for y in &ra.tax_years {
                    let ends_before = match (y.period.end_date(), first_suffix) {
                        (Some(e), Some(f)) => e < f,
                        _ => false,
                    };
                    if !ends_before {
                        continue;
                    }
                    match rb.tax_years.iter().find(|z| z.period == y.period) {
                        None => atoms.push(vx::lit(false, &format!("tax year {} disappeared", y.period.start_year()))),
                        Some(z) => {
                            atoms.push(vx::eq_l("total_gain", y.total_gain, z.total_gain));
                            atoms.push(vx::eq_l("total_loss", y.total_loss, z.total_loss));
                            atoms.push(vx::eq_l("net_gain", y.net_gain, z.net_gain));
                            atoms.push(vx::lit(y.disposals.len() == z.disposals.len(), "disposal count"));
                            atoms.push(vx::eq_l("dividend_income", y.dividend_income, z.dividend_income));
                        }
                    }
                }
                leaf.ob("C12.closed-years-unchanged", &vx::and(&atoms));
            }
        }
    }
    leaf
}
