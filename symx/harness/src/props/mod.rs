//! Property evaluators. Each takes a skeleton, instantiates it with symbolic (or replayed) numeric
//! fields, runs the REAL cgt-tool entry points and states the property as obligations over the outputs.

pub mod common;
pub mod convert;
pub mod fx;
pub mod matching;
#[cfg(feature = "mcp")]
pub mod mcp;
#[cfg(cgt_verif)]
pub mod order;
pub mod relational;
pub mod report;
pub mod text;

use crate::Leaf;
use crate::ledger::Skeleton;

pub fn run(prop: &str, sk: &Skeleton) -> Leaf {
    match prop {
        "C01" | "C02" | "C03" | "C05" => matching::run(prop, sk),
        "C04" => report::c04(sk),
        "C07dates" => report::c07_dates(sk),
        "C07mcp" => report::c07_mcp(sk),
        "C07" => report::c07(sk),
        "C08" => fx::c08(sk),
        "C13parse" => text::c13_parse(sk),
        "SHIM" => text::shim_probe(sk),
        #[cfg(cgt_verif)]
        "C16" => order::c16(sk),
        "C14" => text::c14(sk),
        "C18" => convert::c18(sk),
        "C18bytes" => convert::c18_bytes(sk),
        "C19" => convert::c19(sk),
        "C15" => text::c15(sk),
        "C17" => text::c17(sk),
        "C17round" => text::c17_round(sk),
        "C06" => relational::c06(sk),
        "C09" => relational::c09(sk),
        "C10" => relational::c10(sk),
        "C11" => relational::c11(sk),
        "C12" => relational::c12(sk),
        o => panic!("no evaluator for property {o}"),
    }
}

/// A panic of the code under test reached the harness: only C15 treats that as its subject; for every
/// other property it is recorded as outcome "panic" and reported by the driver as an inconclusive path.
pub fn on_panic(prop: &str, _sk: &Skeleton, leaf: &mut Leaf) {
    if prop == "C15" {
        text::c15_on_panic(leaf);
    }
}

/// the CLI's own read_fx_folder (source-extracted by build.rs); None if it could not be extracted
pub fn relational_cli_fx_folder(p: &std::path::Path) -> Option<Vec<cgt_money::RateFile>> {
    relational::cli_fx_folder(p)
}
