//! C04 (report arithmetic from legs to tax-year totals) and the SYMX part of C07 (tax-year attribution at the
//! 5/6 April boundary; a year report is the all-years slice).

use super::common::*;
use crate::ledger::{self, Kind, Line, Mode, Skeleton};
use crate::{Leaf, vx};
use cgt_core::{CgtError, Config, TaxReport, TaxYearSummary};
use chrono::Datelike;
use rust_decimal::Decimal;
use serde_json::json;
use std::collections::BTreeMap;

/// UK tax year of a date, from the statute: 6 April Y .. 5 April Y+1 is tax year Y.
fn tax_year_of(d: chrono::NaiveDate) -> i32 {
    if d.month() < 4 || (d.month() == 4 && d.day() < 6) { d.year() - 1 } else { d.year() }
}

fn years_touched(lines: &[Line]) -> Vec<i32> {
    let mut v: Vec<i32> = lines.iter().map(|l| tax_year_of(l.date)).collect();
    v.sort();
    v.dedup();
    v
}

/// exemption table with one symbolic amount per tax year the ledger touches (and the neighbours)
fn symbolic_config(years: &[i32], omit: Option<i32>) -> (Config, BTreeMap<i32, Decimal>) {
    let mut cfg = Config::default();
    let mut m = BTreeMap::new();
    for &y in years {
        if Some(y) == omit || !(0..=65535).contains(&y) {
            continue;
        }
        let e = vx::fresh(&format!("exempt{y}"));
        vx::assume(&vx::ge(e, Decimal::ZERO));
        cfg.exemptions.insert(y as u16, e);
        m.insert(y, e);
    }
    (cfg, m)
}

fn year_obligations(leaf: &mut Leaf, tag: &str, sk: &Skeleton, lines: &[Line], y: &TaxYearSummary, exempt: &BTreeMap<i32, Decimal>) {
    let zero = Decimal::ZERO;
    let yr = y.period.start_year() as i32;
    let tol = Decimal::new(5, 11);
    let mut atoms = Vec::new();
    let mut tg = zero;
    let mut tl = zero;
    for d in &y.disposals {
        let day = day_of(sk, d.date);
        let sells: Vec<&Line> = lines.iter().filter(|l| l.kind == Kind::Sell && l.ticker == d.ticker && l.day == day).collect();
        let gross = sum(sells.iter().map(|l| l.q * l.p));
        let fees = sum(sells.iter().map(|l| l.f));
        let qty = sum(sells.iter().map(|l| l.q));
        let name = format!("{} {}", d.ticker, d.date);
        atoms.push(vx::lit(!sells.is_empty(), &format!("{tag} disposal {name} has SELL lines")));
        atoms.push(vx::lit(tax_year_of(d.date) == yr, &format!("{tag} disposal {name} listed under tax year {yr}")));
        atoms.push(vx::near_l(&format!("{tag} gross proceeds {name}"), d.gross_proceeds, gross, tol));
        atoms.push(vx::near_l(&format!("{tag} net proceeds {name}"), d.proceeds, gross - fees, tol));
        atoms.push(vx::eq_l(&format!("{tag} quantity = sum of legs {name}"), d.quantity, sum(d.matches.iter().map(|m| m.quantity))));
        atoms.push(vx::eq_l(&format!("{tag} quantity = sold {name}"), d.quantity, qty));
        let gains = sum(d.matches.iter().map(|m| m.gain_or_loss));
        let costs = sum(d.matches.iter().map(|m| m.allowable_cost));
        atoms.push(vx::near_l(&format!("{tag} legs' gains = proceeds - costs {name}"), gains, d.proceeds - costs, tol));
        atoms.push(vx::eq_l(&format!("{tag} net_gain_or_loss() {name}"), d.net_gain_or_loss(), gains));
        atoms.push(vx::eq_l(&format!("{tag} total_allowable_cost() {name}"), d.total_allowable_cost(), costs));
        tg = tg + gains.max(zero);
        tl = tl + (zero - gains).max(zero);
    }
    atoms.push(vx::eq_l(&format!("{tag} total_gain {yr}"), y.total_gain, tg));
    atoms.push(vx::eq_l(&format!("{tag} total_loss {yr}"), y.total_loss, tl));
    atoms.push(vx::eq_l(&format!("{tag} net_gain {yr}"), y.net_gain, tg - tl));
    atoms.push(vx::lit(y.disposal_count() == y.disposals.len(), &format!("{tag} disposal_count {yr}")));
    atoms.push(vx::eq_l(&format!("{tag} gross_proceeds() {yr}"), y.gross_proceeds(), sum(y.disposals.iter().map(|d| d.gross_proceeds))));
    let divs: Vec<&Line> = lines.iter().filter(|l| l.kind == Kind::Dividend && tax_year_of(l.date) == yr).collect();
    atoms.push(vx::eq_l(&format!("{tag} dividend_income {yr}"), y.dividend_income, sum(divs.iter().map(|l| l.p))));
    atoms.push(vx::eq_l(&format!("{tag} dividend_tax_paid {yr}"), y.dividend_tax_paid, sum(divs.iter().map(|l| l.f))));
    match exempt.get(&yr) {
        Some(e) => {
            atoms.push(vx::eq_l(&format!("{tag} exempt_amount {yr}"), y.exempt_amount, *e));
            atoms.push(vx::eq_l(&format!("{tag} taxable_gain {yr}"), y.taxable_gain(y.exempt_amount), (y.net_gain - *e).max(zero)));
        }
        None => atoms.push(vx::lit(false, &format!("{tag} a summary was produced for the unconfigured year {yr}"))),
    }
    leaf.ob(&format!("{tag}.year-{yr}"), &vx::and(&atoms));
}

/// a decimal as a TOML value: integers bare (as in the embedded table), anything else quoted
fn toml_amount(d: Decimal) -> String {
    let t = d.to_string();
    if t.contains('.') { format!("\"{t}\"") } else { t }
}

/// The exemption table as the CLI and the MCP server load it: `Config::load_with_overrides()` run in a scratch working
/// directory and HOME holding override files (opts `cwd_ov` / `home_ov`: the years each file lists) whose amounts are
/// symbolic. Expected table: a listed year has the file's amount, every other embedded year keeps the embedded one.
fn config_from_override_files(sk: &Skeleton, leaf: &mut Leaf, years: &[i32]) -> Option<(Config, BTreeMap<i32, Decimal>)> {
    let root = std::env::temp_dir().join(format!("symx-c04-{}-{}", std::process::id(), sk.id));
    let cwd = root.join("cwd");
    let home = root.join("home");
    let home_cfg = home.join(".config").join("cgt-tool");
    std::fs::create_dir_all(&cwd).expect("scratch cwd");
    std::fs::create_dir_all(&home_cfg).expect("scratch home");
    let mut over: BTreeMap<i32, Decimal> = BTreeMap::new();
    for (key, dir) in [("cwd_ov", &cwd), ("home_ov", &home_cfg)] {
        if let Some(ys) = sk.raw["opts"].get(key).and_then(|v| v.as_array()) {
            let mut text = String::from("# override\n[exemptions]\n");
            for y in ys {
                let y = y.as_i64().expect("override year") as i32;
                let e = vx::fresh(&format!("ov{y}"));
                vx::assume(&vx::ge(e, Decimal::ZERO));
                text.push_str(&format!("\"{y}\" = {}\n", toml_amount(e)));
                assert!(over.insert(y, e).is_none(), "families list a year in one override file only");
            }
            std::fs::write(dir.join("config.toml"), text).expect("override file");
        }
    }
    let back = std::env::current_dir().expect("cwd");
    #[allow(unused_unsafe)]
    unsafe {
        std::env::set_var("HOME", &home)
    };
    std::env::set_current_dir(&cwd).expect("chdir");
    let loaded = Config::load_with_overrides();
    std::env::set_current_dir(&back).expect("chdir back");
    let _ = std::fs::remove_dir_all(&root);
    let embedded = Config::embedded().expect("embedded table");
    let cfg = match loaded {
        Ok(c) => c,
        Err(e) => {
            leaf.outcome = "err".into();
            leaf.msg = e.to_string();
            leaf.ob_bool("C04.override-files-load", false, "load_with_overrides failed on well-formed override files");
            return None;
        }
    };
    let mut atoms = Vec::new();
    for (y, e) in &over {
        match cfg.get_exemption(*y as u16) {
            Ok(v) => atoms.push(vx::eq_l(&format!("override amount for {y}"), v, *e)),
            Err(_) => atoms.push(vx::lit(false, &format!("year {y} of an override file is not configured"))),
        }
    }
    leaf.ob("C04.override-file-amounts-used", &vx::and(&atoms));
    let mut kept = Vec::new();
    for (y, v) in &embedded.exemptions {
        if !over.contains_key(&(*y as i32)) {
            match cfg.get_exemption(*y) {
                Ok(w) => kept.push(vx::eq_l(&format!("embedded amount for {y}"), w, *v)),
                Err(_) => kept.push(vx::lit(false, &format!("embedded year {y} lost"))),
            }
        }
    }
    let want_years = embedded.exemptions.len() + over.keys().filter(|y| !embedded.exemptions.contains_key(&(**y as u16))).count();
    kept.push(vx::lit(cfg.exemptions.len() == want_years, "configured years are the embedded ones plus those added by override files"));
    leaf.ob("C04.embedded-years-kept", &vx::and(&kept));
    let mut ex = BTreeMap::new();
    for &y in years {
        if let Some(e) = over.get(&y) {
            ex.insert(y, *e);
        } else if let Some(v) = embedded.exemptions.get(&(y as u16)) {
            ex.insert(y, *v);
        }
    }
    Some((cfg, ex))
}

fn disposal_years(lines: &[Line]) -> Vec<i32> {
    let mut v: Vec<i32> = lines.iter().filter(|l| l.kind == Kind::Sell).map(|l| tax_year_of(l.date)).collect();
    v.sort();
    v.dedup();
    v
}

pub fn c04(sk: &Skeleton) -> Leaf {
    let mode = Mode::parse(&sk.opt_str("mode").unwrap_or_else(|| "QPF".into()));
    let lines = ledger::instantiate(sk, "lines", &mode);
    let txs = ledger::to_transactions(&lines);
    let mut leaf = Leaf { extra: json!({"ledger": ledger::describe(&lines)}), ..Default::default() };
    let years = years_touched(&lines);
    let variant = sk.opt_str("variant").unwrap_or_else(|| "all".into());
    let dys = disposal_years(&lines);
    if variant == "missing" {
        // the exemption table lacks one year that has a disposal: an error, never zero
        let omit = dys.first().copied();
        let (cfg, _) = symbolic_config(&years, omit);
        let res = cgt_core::calculator::calculate(&txs, None, None, &cfg);
        leaf.sig = signature(&res, sk);
        match res {
            Ok(_) => {
                leaf.outcome = "ok".into();
                leaf.ob_bool("C04.unconfigured-year-is-an-error", omit.is_none(), "a report was produced although a year with disposals has no configured exemption");
            }
            Err(e) => {
                leaf.outcome = "err".into();
                leaf.msg = e.to_string();
                if let (CgtError::UnsupportedExemptionYear(y), Some(o)) = (&e, omit) {
                    leaf.ob_bool("C04.unconfigured-year-is-an-error", *y as i32 == o, "error names another year");
                }
            }
        }
        return leaf;
    }
    let (cfg, ex) = if variant == "override" {
        match config_from_override_files(sk, &mut leaf, &years) {
            Some(x) => x,
            None => return leaf,
        }
    } else {
        symbolic_config(&years, None)
    };
    let filter = sk.opt_i64("year").map(|y| y as i32);
    let res = cgt_core::calculator::calculate(&txs, filter, None, &cfg);
    leaf.sig = signature(&res, sk);
    match &res {
        Err(e) => {
            leaf.outcome = "err".into();
            leaf.msg = e.to_string();
            if variant == "override" {
                if let CgtError::UnsupportedExemptionYear(y) = e {
                    let y = *y as i32;
                    leaf.ob_bool("C04.unconfigured-year-is-an-error", !ex.contains_key(&y) && dys.contains(&y), "refused for a year that is configured (embedded table or override file) or has no disposal");
                }
            }
        }
        Ok(rep) => {
            leaf.outcome = "ok".into();
            let listed: Vec<i32> = rep.tax_years.iter().map(|y| y.period.start_year() as i32).collect();
            match filter {
                None => {
                    leaf.ob_bool("C04.years-listed", listed == dys, &format!("tax years {listed:?}, disposals fall in {dys:?}"));
                }
                Some(f) => {
                    leaf.ob_bool("C04.years-listed", listed == vec![f], &format!("tax years {listed:?} for filter {f}"));
                }
            }
            for y in &rep.tax_years {
                year_obligations(&mut leaf, "C04", sk, &lines, y, &ex);
            }
            // every SELL day appears as exactly one disposal (in the years reported)
            let mut want: Vec<(String, chrono::NaiveDate)> = lines
                .iter()
                .filter(|l| l.kind == Kind::Sell && filter.map(|f| tax_year_of(l.date) == f).unwrap_or(true))
                .map(|l| (l.ticker.clone(), l.date))
                .collect();
            want.sort();
            want.dedup();
            let mut have: Vec<(String, chrono::NaiveDate)> = rep.tax_years.iter().flat_map(|y| y.disposals.iter().map(|d| (d.ticker.clone(), d.date))).collect();
            have.sort();
            leaf.ob_bool("C04.one-disposal-per-sale-day", want == have, &format!("disposals {have:?} vs SELL days {want:?}"));
        }
    }
    leaf
}

fn report_equal_slice(leaf: &mut Leaf, tag: &str, all: &TaxReport, one: &TaxReport, y: i32) {
    let zero = Decimal::ZERO;
    let mut atoms = Vec::new();
    let slice = all.tax_years.iter().find(|s| s.period.start_year() as i32 == y);
    if one.tax_years.len() != 1 || one.tax_years[0].period.start_year() as i32 != y {
        leaf.ob_bool(&format!("{tag}.single-year"), false, "a year report must contain exactly the requested year");
        return;
    }
    let o = &one.tax_years[0];
    match slice {
        None => {
            atoms.push(vx::lit(o.disposals.is_empty(), "year without disposals in the all-years report has disposals in its own report"));
            atoms.push(vx::eq_l("total_gain", o.total_gain, zero));
            atoms.push(vx::eq_l("total_loss", o.total_loss, zero));
            atoms.push(vx::eq_l("net_gain", o.net_gain, zero));
        }
        Some(s) => {
            atoms.push(vx::lit(s.disposals.len() == o.disposals.len(), "number of disposals differs"));
            for (a, b) in s.disposals.iter().zip(o.disposals.iter()) {
                atoms.push(vx::lit(a.date == b.date && a.ticker == b.ticker && a.matches.len() == b.matches.len(), "disposal identity / leg count differs"));
                atoms.push(vx::eq_l("quantity", a.quantity, b.quantity));
                atoms.push(vx::near_l("gross", a.gross_proceeds, b.gross_proceeds, Decimal::new(1, 10)));
                atoms.push(vx::near_l("proceeds", a.proceeds, b.proceeds, Decimal::new(1, 10)));
                for (m, n) in a.matches.iter().zip(b.matches.iter()) {
                    atoms.push(vx::lit(m.rule == n.rule && m.acquisition_date == n.acquisition_date, "leg rule / acquisition date differs"));
                    atoms.push(vx::eq_l("leg quantity", m.quantity, n.quantity));
                    atoms.push(vx::eq_l("leg cost", m.allowable_cost, n.allowable_cost));
                    atoms.push(vx::eq_l("leg gain", m.gain_or_loss, n.gain_or_loss));
                }
            }
            atoms.push(vx::eq_l("total_gain", s.total_gain, o.total_gain));
            atoms.push(vx::eq_l("total_loss", s.total_loss, o.total_loss));
            atoms.push(vx::eq_l("net_gain", s.net_gain, o.net_gain));
            atoms.push(vx::eq_l("exempt", s.exempt_amount, o.exempt_amount));
            atoms.push(vx::eq_l("dividend_income", s.dividend_income, o.dividend_income));
            atoms.push(vx::eq_l("dividend_tax", s.dividend_tax_paid, o.dividend_tax_paid));
        }
    }
    atoms.push(vx::lit(all.holdings.len() == one.holdings.len(), "holdings differ between the year report and the all-years report"));
    for (a, b) in all.holdings.iter().zip(one.holdings.iter()) {
        atoms.push(vx::lit(a.ticker == b.ticker, "holding ticker"));
        atoms.push(vx::eq_l("holding quantity", a.quantity, b.quantity));
        atoms.push(vx::eq_l("holding cost", a.total_cost, b.total_cost));
    }
    leaf.ob(&format!("{tag}.year-{y}-is-the-all-years-slice"), &vx::and(&atoms));
}

pub fn c07(sk: &Skeleton) -> Leaf {
    #[cfg(feature = "mcp")]
    if sk.opt_str("variant").as_deref() == Some("mcp") {
        return super::mcp::c07_mcp(sk);
    }
    let mode = Mode::parse(&sk.opt_str("mode").unwrap_or_else(|| "QPF".into()));
    let lines = ledger::instantiate(sk, "lines", &mode);
    let txs = ledger::to_transactions(&lines);
    let mut leaf = Leaf { extra: json!({"ledger": ledger::describe(&lines)}), ..Default::default() };
    let mut years = years_touched(&lines);
    // neighbours too: a year filter may name a year without any line
    let lo = years.first().copied().unwrap_or(2024) - 1;
    let hi = years.last().copied().unwrap_or(2024) + 1;
    years.push(lo);
    years.push(hi);
    years.sort();
    years.dedup();
    let (cfg, _ex) = symbolic_config(&years, None);
    let all = cgt_core::calculator::calculate(&txs, None, None, &cfg);
    leaf.sig = signature(&all, sk);
    let Ok(all) = all else {
        leaf.outcome = "err".into();
        leaf.msg = all.err().map(|e| e.to_string()).unwrap_or_default();
        // dates whose tax year is outside 1900..2100 are an error, never a wrong year
        let out_of_range = lines.iter().filter(|l| l.kind == Kind::Sell).any(|l| !(1900..=2100).contains(&tax_year_of(l.date)));
        if leaf.msg.contains("out of valid range") {
            leaf.ob_bool("C07.range-error-only-outside-1900-2100", out_of_range, "a date inside the supported range was refused");
        }
        return leaf;
    };
    leaf.outcome = "ok".into();
    // all-years: ascending, each disposal in exactly the year the statute gives
    let listed: Vec<i32> = all.tax_years.iter().map(|y| y.period.start_year() as i32).collect();
    let mut sorted = listed.clone();
    sorted.sort();
    sorted.dedup();
    leaf.ob_bool("C07.years-ascending-unique", listed == sorted, &format!("tax years listed as {listed:?}"));
    let mut ok = true;
    let mut why = String::new();
    for l in lines.iter().filter(|l| l.kind == Kind::Sell) {
        let want = tax_year_of(l.date);
        let found: Vec<i32> = all
            .tax_years
            .iter()
            .filter(|y| y.disposals.iter().any(|d| d.date == l.date && d.ticker == l.ticker))
            .map(|y| y.period.start_year() as i32)
            .collect();
        if found != vec![want] {
            ok = false;
            why = format!("disposal of {} on {} reported in tax years {found:?}, statute: {want}", l.ticker, l.date);
        }
    }
    leaf.ob_bool("C07.disposal-in-its-statutory-year", ok, &why);
    // every year filter: the slice
    for &y in &years {
        if !(1900..=2100).contains(&y) {
            continue;
        }
        match cgt_core::calculator::calculate(&txs, Some(y), None, &cfg) {
            Ok(one) => report_equal_slice(&mut leaf, "C07", &all, &one, y),
            Err(e) => {
                leaf.ob_bool(&format!("C07.year-{y}-report-produced"), false, &format!("year report refused: {e}"));
            }
        }
    }
    // a year report is computed from the full history but needs only ITS OWN year's exemption: with the exemption of another
    // year that has disposals removed from the table, the reports of the remaining years are unchanged
    let dys = disposal_years(&lines);
    if dys.len() >= 2 {
        let omitted = dys[0];
        let mut cfg2 = cfg.clone();
        cfg2.exemptions.remove(&(omitted as u16));
        for &y in dys.iter().skip(1) {
            let full = cgt_core::calculator::calculate(&txs, Some(y), None, &cfg);
            let part = cgt_core::calculator::calculate(&txs, Some(y), None, &cfg2);
            match (full, part) {
                (Ok(a), Ok(b)) => report_equal_slice(&mut leaf, &format!("C07.without-exemption-of-{omitted}"), &a, &b, y),
                (Ok(_), Err(e)) => {
                    leaf.ob_bool(&format!("C07.year-{y}-report-needs-only-its-own-exemption"), false, &format!("year {y} refused because {omitted} has no exemption: {e}"));
                }
                _ => {}
            }
        }
    }
    // a filter year outside the exemption table is an error (C04), never a silent zero
    let unknown = hi + 7;
    if (1900..=2100).contains(&unknown) {
        let r = cgt_core::calculator::calculate(&txs, Some(unknown), None, &cfg);
        leaf.ob_bool("C07.unconfigured-filter-year-is-an-error", matches!(r, Err(CgtError::UnsupportedExemptionYear(_))), "year filter outside the exemption table did not fail");
    }
    leaf
}

/// Native exhaustive scan used to REPLAY a KANI counterexample for the date kernel: every calendar date of
/// years 0..=9999 through the real `TaxPeriod::from_date`; the first date that disagrees with the statute is reported.
pub fn c07_dates(_sk: &Skeleton) -> Leaf {
    let mut leaf = Leaf { outcome: "ok".into(), ..Default::default() };
    let mut bad: Option<String> = None;
    let mut n = 0u64;
    'outer: for y in 0..=9999i32 {
        for m in 1..=12u32 {
            for d in 1..=31u32 {
                let Some(date) = chrono::NaiveDate::from_ymd_opt(y, m, d) else { continue };
                n += 1;
                let want = tax_year_of(date);
                let got = cgt_core::TaxPeriod::from_date(date);
                let ok = match &got {
                    Ok(p) => (1900..=2100).contains(&want) && p.start_year() as i32 == want && p.end_year() as i32 == want + 1,
                    Err(_) => !(1900..=2100).contains(&want),
                };
                if !ok {
                    bad = Some(format!("{date}: from_date = {:?}, statute: {want}", got.map(|p| p.start_year())));
                    break 'outer;
                }
            }
        }
    }
    // period bounds
    if bad.is_none() {
        for y in 0..=u16::MAX {
            let r = cgt_core::TaxPeriod::new(y);
            let ok = match &r {
                Ok(p) => (1900..=2100).contains(&y) && p.start_date() == chrono::NaiveDate::from_ymd_opt(y as i32, 4, 6) && p.end_date() == chrono::NaiveDate::from_ymd_opt(y as i32 + 1, 4, 5),
                Err(_) => !(1900..=2100).contains(&y),
            };
            if !ok {
                bad = Some(format!("TaxPeriod::new({y}) / start_date / end_date"));
                break;
            }
        }
    }
    leaf.extra = json!({"dates_scanned": n});
    leaf.ob_bool("C07.date-kernel-native-scan", bad.is_none(), bad.as_deref().unwrap_or(""));
    leaf
}

mod mcp_extract {
    #![allow(dead_code, unused_imports, clippy::all)]
    use chrono::Datelike;
    include!(concat!(env!("OUT_DIR"), "/mcp_extract.rs"));
}

/// Replay of an SRCX counterexample for the MCP year derivation: the statement `let year = if .. {..} else {..};`
/// of explain_matching, compiled verbatim (build.rs), evaluated on the date given in opts.date.
pub fn c07_mcp(sk: &Skeleton) -> Leaf {
    let mut leaf = Leaf { outcome: "ok".into(), ..Default::default() };
    if sk.opt_str("date").as_deref() == Some("scan") {
        // replay of a failed all-dates proof: the first date on which the compiled statement leaves the statute
        let mut bad: Option<String> = None;
        'outer: for y in 0..=9999i32 {
            for m in 1..=12u32 {
                for d in 1..=31u32 {
                    let Some(date) = chrono::NaiveDate::from_ymd_opt(y, m, d) else { continue };
                    match mcp_extract::mcp_year(date) {
                        None => {
                            leaf.outcome = "not-extracted".into();
                            return leaf;
                        }
                        Some(got) if got != tax_year_of(date) => {
                            bad = Some(format!("explain_matching derives tax year {got} for {date}, statute: {}", tax_year_of(date)));
                            break 'outer;
                        }
                        _ => {}
                    }
                }
            }
        }
        leaf.ob_bool("C07.mcp-year-derivation", bad.is_none(), bad.as_deref().unwrap_or(""));
        return leaf;
    }
    let date = sk.opt_str("date").and_then(|d| chrono::NaiveDate::parse_from_str(&d, "%Y-%m-%d").ok()).unwrap_or(sk.base);
    match mcp_extract::mcp_year(date) {
        None => {
            leaf.outcome = "not-extracted".into();
        }
        Some(y) => {
            let want = tax_year_of(date);
            leaf.ob_bool("C07.mcp-year-derivation", y == want, &format!("explain_matching derives tax year {y} for {date}, statute: {want}"));
        }
    }
    leaf
}
