//! Properties decided through the real text layers (DSL writer, pest parser, serde_json, plain formatter)
//! inside the symbolic run: symbolic values travel through text as reserved literals.
//!   C14 DSL / JSON round trips      C15 no panic on hostile numbers; validator equivalence
//!   C17 JSON and plain text show the same figures

use super::common::*;
use crate::ledger::{self, Kind, Line, Mode, Skeleton};
use crate::{Leaf, vx};
use cgt_core::{Config, Operation, TaxReport, Transaction};
use cgt_money::CurrencyAmount;
use rust_decimal::Decimal;
use rust_decimal::RoundingStrategy;
use serde_json::{Value, json};
use std::str::FromStr;

// ------------------------------------------------------------------------------------------------ C14
fn amounts(op: &Operation<CurrencyAmount>) -> (Vec<(&'static str, Decimal)>, Vec<(&'static str, &CurrencyAmount)>) {
    match op {
        Operation::Buy { amount, price, fees } | Operation::Sell { amount, price, fees } => (vec![("amount", *amount)], vec![("price", price), ("fees", fees)]),
        Operation::Dividend { total_value, tax_paid } => (vec![], vec![("total_value", total_value), ("tax_paid", tax_paid)]),
        Operation::Accumulation { amount, total_value, tax_paid } => (vec![("amount", *amount)], vec![("total_value", total_value), ("tax_paid", tax_paid)]),
        Operation::CapReturn { amount, total_value, fees } => (vec![("amount", *amount)], vec![("total_value", total_value), ("fees", fees)]),
        Operation::Split { ratio } | Operation::Unsplit { ratio } => (vec![("ratio", *ratio)], vec![]),
    }
}

fn op_kind(op: &Operation<CurrencyAmount>) -> &'static str {
    match op {
        Operation::Buy { .. } => "BUY",
        Operation::Sell { .. } => "SELL",
        Operation::Dividend { .. } => "DIVIDEND",
        Operation::Accumulation { .. } => "ACCUMULATION",
        Operation::CapReturn { .. } => "CAPRETURN",
        Operation::Split { .. } => "SPLIT",
        Operation::Unsplit { .. } => "UNSPLIT",
    }
}

/// `b` reproduces `a` exactly: dates, tickers, kinds, decimals (proved), currencies (a zero optional fee/tax may lose its label)
pub(crate) fn same_transactions(leaf: &mut Leaf, tag: &str, a: &[Transaction], b: &[Transaction]) {
    if !leaf.ob_bool(&format!("{tag}.same-length"), a.len() == b.len(), &format!("{} vs {} transactions", a.len(), b.len())) {
        return;
    }
    let mut atoms = Vec::new();
    let mut structural = String::new();
    for (i, (x, y)) in a.iter().zip(b.iter()).enumerate() {
        if x.date != y.date || x.ticker.to_uppercase() != y.ticker.to_uppercase() || op_kind(&x.operation) != op_kind(&y.operation) {
            structural = format!("transaction {i}: {} {} {} vs {} {} {}", x.date, x.ticker, op_kind(&x.operation), y.date, y.ticker, op_kind(&y.operation));
            continue;
        }
        let (dx, mx) = amounts(&x.operation);
        let (dy, my) = amounts(&y.operation);
        for ((n, p), (_, q)) in dx.iter().zip(dy.iter()) {
            atoms.push(vx::eq_l(&format!("{tag} tx{i} {n}"), *p, *q));
        }
        for (k, ((n, p), (_, q))) in mx.iter().zip(my.iter()).enumerate() {
            atoms.push(vx::eq_l(&format!("{tag} tx{i} {n}"), p.amount, q.amount));
            if p.code() != q.code() {
                // only the optional second amount (fees / tax), and only when it is zero, may lose its label
                if k == 1 {
                    atoms.push(vx::eq_l(&format!("{tag} tx{i} {n} changed currency {} -> {} although non-zero", p.code(), q.code()), p.amount, Decimal::ZERO));
                } else {
                    atoms.push(vx::lit(false, &format!("{tag} tx{i} {n} currency {} -> {}", p.code(), q.code())));
                }
            }
        }
    }
    leaf.ob_bool(&format!("{tag}.same-dates-tickers-kinds"), structural.is_empty(), &structural);
    leaf.ob(&format!("{tag}.same-values"), &vx::and(&atoms));
}

pub fn c14(sk: &Skeleton) -> Leaf {
    #[cfg(feature = "mcp")]
    if sk.opt_str("variant").as_deref() == Some("mcp") {
        return super::mcp::c14_mcp(sk);
    }
    let mode = Mode::parse(&sk.opt_str("mode").unwrap_or_else(|| "QPF".into()));
    let lines = ledger::instantiate(sk, "lines", &mode);
    let txs = ledger::to_transactions(&lines);
    let mut leaf = Leaf { extra: json!({"ledger": ledger::describe(&lines)}), outcome: "ok".into(), ..Default::default() };
    // DSL
    let dsl = cgt_core::dsl::transactions_to_dsl(&txs);
    leaf.extra["dsl"] = json!(dsl);
    match cgt_core::parser::parse_file(&dsl) {
        Err(e) => {
            leaf.ob_bool("C14.dsl-parses-back", false, &format!("own DSL rendering rejected: {e}"));
        }
        Ok(back) => {
            same_transactions(&mut leaf, "C14.dsl", &txs, &back);
            let again = cgt_core::dsl::transactions_to_dsl(&back);
            leaf.ob_bool("C14.dsl-writing-idempotent", again == dsl, &format!("{dsl:?} -> {again:?}"));
            // with a trailing newline and as separate lines too
            let nl = cgt_core::parser::parse_file(&format!("{dsl}\n"));
            leaf.ob_bool("C14.dsl-final-newline", nl.as_ref().map(|t| t.len() == txs.len()).unwrap_or(false), "rendering + final newline parses differently");
            if sk.opt_i64("calc").unwrap_or(0) == 1 {
                let cfg = Config::embedded().expect("config");
                let r1 = cgt_core::calculator::calculate(&txs, None, None, &cfg);
                let r2 = cgt_core::calculator::calculate(&back, None, None, &cfg);
                same_reports(&mut leaf, "C14.report-from-dsl", &r1, &r2);
            }
        }
    }
    // JSON
    match serde_json::to_string(&txs) {
        Err(e) => {
            leaf.ob_bool("C14.json-serialises", false, &e.to_string());
        }
        Ok(js) => match serde_json::from_str::<Vec<Transaction>>(&js) {
            Err(e) => {
                leaf.ob_bool("C14.json-reads-back", false, &format!("{e}: {js}"));
            }
            Ok(back) => {
                same_transactions(&mut leaf, "C14.json", &txs, &back);
                if sk.opt_i64("calc").unwrap_or(0) == 1 {
                    let cfg = Config::embedded().expect("config");
                    let r1 = cgt_core::calculator::calculate(&txs, None, None, &cfg);
                    let r2 = cgt_core::calculator::calculate(&back, None, None, &cfg);
                    same_reports(&mut leaf, "C14.report-from-json", &r1, &r2);
                }
            }
        },
    }
    leaf
}

fn same_reports(leaf: &mut Leaf, tag: &str, a: &Result<TaxReport, cgt_core::CgtError>, b: &Result<TaxReport, cgt_core::CgtError>) {
    match (a, b) {
        (Err(_), Err(_)) => {}
        (Ok(x), Ok(y)) => {
            let mut atoms = vec![vx::lit(x.tax_years.len() == y.tax_years.len() && x.holdings.len() == y.holdings.len(), "shape")];
            for (p, q) in x.tax_years.iter().zip(y.tax_years.iter()) {
                atoms.push(vx::eq_l("total_gain", p.total_gain, q.total_gain));
                atoms.push(vx::eq_l("total_loss", p.total_loss, q.total_loss));
                atoms.push(vx::eq_l("dividend_income", p.dividend_income, q.dividend_income));
                atoms.push(vx::lit(p.disposals.len() == q.disposals.len(), "disposals"));
            }
            for (p, q) in x.holdings.iter().zip(y.holdings.iter()) {
                atoms.push(vx::eq_l("holding qty", p.quantity, q.quantity));
                atoms.push(vx::eq_l("holding cost", p.total_cost, q.total_cost));
            }
            leaf.ob(tag, &vx::and(&atoms));
        }
        _ => {
            leaf.ob_bool(tag, false, "one rendering is accepted by calculate, the other refused");
        }
    }
}

// ------------------------------------------------------------------------------------------------ C15
pub fn c15(sk: &Skeleton) -> Leaf {
    let m = Mode::parse(&sk.opt_str("mode").unwrap_or_else(|| "QPFRH".into()));
    let variant = sk.opt_str("variant").unwrap_or_else(|| "panic".into());
    let lines = ledger::instantiate(sk, "lines", &m);
    let txs = ledger::to_transactions(&lines);
    let mut leaf = Leaf { extra: json!({"ledger": ledger::describe(&lines)}), outcome: "ok".into(), ..Default::default() };
    if variant == "convert" {
        // the Schwab converter on hostile field spellings (concrete strings from the skeleton): a clean error or a result, never a panic
        use cgt_converter::BrokerConverter;
        let row = &sk.raw["opts"]["row"];
        let tj = json!({"BrokerageTransactions": [row]}).to_string();
        let input = cgt_converter::schwab::SchwabInput { transactions_json: tj, awards_json: sk.opt_str("awards") };
        match cgt_converter::schwab::SchwabConverter::new().convert(&input) {
            Ok(o) => {
                leaf.extra["dsl_lines"] = json!(o.cgt_content.lines().count());
            }
            Err(e) => {
                leaf.outcome = "err".into();
                leaf.msg = e.to_string();
                leaf.ob_bool("C15.error-is-descriptive", !leaf.msg.trim().is_empty(), "empty error message");
            }
        }
        leaf.ob_bool("C15.no-panic", true, "");
        return leaf;
    }
    if variant == "validator" {
        let res = cgt_core::validate(&txs);
        let zero = Decimal::ZERO;
        let mut ok = Vec::new();
        for l in &lines {
            match l.kind {
                Kind::Buy | Kind::Sell => ok.push(vx::and(&[vx::gt(l.q, zero), vx::ge(l.p, zero), vx::ge(l.f, zero)])),
                Kind::CapReturn => ok.push(vx::and(&[vx::gt(l.q, zero), vx::ge(l.p, zero), vx::ge(l.f, zero)])),
                Kind::Accum => ok.push(vx::and(&[vx::gt(l.q, zero), vx::ge(l.p, zero)])),
                Kind::Dividend => ok.push(vx::ge(l.p, zero)),
                Kind::Split | Kind::Unsplit => ok.push(vx::gt(l.q, zero)),
            }
        }
        let all_ok = vx::and(&ok);
        if res.is_valid() {
            leaf.outcome = "valid".into();
            leaf.ob("C15.validator-accepts-only-valid", &all_ok);
        } else {
            leaf.outcome = "invalid".into();
            leaf.ob("C15.validator-rejects-only-invalid", &vx::not(&all_ok));
            // every error names a line that is actually at fault
            let mut named = true;
            for e in &res.errors {
                named &= e.line.map(|n| n >= 1 && n <= lines.len()).unwrap_or(false);
            }
            leaf.ob_bool("C15.validator-errors-name-a-line", named, "an error carries no / a wrong line number");
        }
        return leaf;
    }
    if variant == "huge" {
        #[cfg(feature = "symx")]
        rust_decimal::sym::set_overflow_check(true);
    } else {
        // documented numeric range for the main family: magnitudes up to 10^9
        let lim = Decimal::from(1_000_000_000i64);
        for l in &lines {
            for v in [l.q, l.p, l.f] {
                if vx::is_symbolic(v) {
                    vx::assume(&vx::and(&[vx::le(v, lim), vx::ge(v, Decimal::ZERO - lim)]));
                }
            }
        }
    }
    // every entry point either returns or reports an error; a panic unwinds to the driver (outcome "panic")
    // (validate() is exercised by the "validator" variant: its per-field sign tests would only multiply the paths here)
    let _ = cgt_core::dsl::transactions_to_dsl(&txs);
    let cfg = Config::embedded().expect("config");
    match cgt_core::calculator::calculate(&txs, None, None, &cfg) {
        Ok(rep) => {
            let text = cgt_formatter_plain::format(&rep);
            let js = serde_json::to_string(&rep).unwrap_or_default();
            leaf.extra["sizes"] = json!([text.len(), js.len()]);
            let one = cgt_core::calculator::calculate(&txs, Some(2023), None, &cfg);
            leaf.extra["year"] = json!(one.is_ok());
        }
        Err(e) => {
            leaf.outcome = "err".into();
            leaf.msg = e.to_string();
            leaf.ob_bool("C15.error-is-descriptive", !leaf.msg.trim().is_empty(), "empty error message");
        }
    }
    // the MCP tool handlers on the same hostile ledger, as DSL text and as a JSON array (handlers compiled from the current
    // source of crates/cgt-mcp): an answer or an error message, never a panic
    #[cfg(feature = "mcp")]
    if crate::mcpgen::AVAILABLE && sk.opt_i64("mcp").unwrap_or(0) == 1 {
        use crate::mcpgen::server::verif_entry as mcp;
        let server = mcp::server(None, cfg.clone());
        let dsl = cgt_core::dsl::transactions_to_dsl(&txs);
        let js = serde_json::to_string(&txs).unwrap_or_default();
        let mut replies = Vec::new();
        for input in [&dsl, &js] {
            replies.push(mcp::calculate_report(&server, input, None));
            replies.push(mcp::calculate_report(&server, input, Some(2023)));
            replies.push(mcp::parse_transactions(&server, input));
            replies.push(mcp::convert_to_dsl(&server, input));
            for l in lines.iter().filter(|l| l.kind == Kind::Sell).take(1) {
                replies.push(mcp::explain_matching(&server, input, &l.date.to_string(), &l.ticker));
                replies.push(mcp::explain_matching(&server, input, "2024-02-30", &l.ticker));
                replies.push(mcp::explain_matching(&server, input, &l.date.to_string(), "NOSUCH"));
            }
        }
        let empty = replies.iter().flatten().filter(|r| matches!(r, Err(m) if m.trim().is_empty())).count();
        leaf.ob_bool("C15.mcp-error-is-descriptive", empty == 0, "an MCP tool returned an empty error message");
    }
    leaf.ob_bool("C15.no-panic", true, "");
    leaf
}

pub fn c15_on_panic(leaf: &mut Leaf) {
    let msg = leaf.msg.clone();
    leaf.ob_bool("C15.no-panic", false, &format!("panic: {msg}"));
}

// ------------------------------------------------------------------------------------------------ C17
/// Replay side of KANI K5: `cgt_format::round_gbp` against the integer specification of half-away-from-zero rounding on
/// every mantissa below 200000 at scales 3 and 4, both signs (native scan on the real build).
pub fn c17_round(_sk: &Skeleton) -> Leaf {
    let mut leaf = Leaf { outcome: "ok".into(), ..Default::default() };
    let mut bad = String::new();
    'scan: for scale in [3u32, 4] {
        let p: i64 = if scale == 3 { 10 } else { 100 };
        for lo in 0i64..200_000 {
            for neg in [false, true] {
                let d = Decimal::new(if neg { -lo } else { lo }, scale);
                let e = lo / p + if (lo % p) * 2 >= p { 1 } else { 0 };
                let want = Decimal::new(if neg { -e } else { e }, 2);
                let got = cgt_format::round_gbp(d);
                if got != want {
                    bad = format!("round_gbp({d}) = {got}, half away from zero gives {want}");
                    break 'scan;
                }
            }
        }
    }
    leaf.ob_bool("C17.round_gbp-is-half-away-from-zero", bad.is_empty(), &bad);
    leaf
}

pub(crate) fn half_away(v: Decimal) -> Decimal {
    v.round_dp_with_strategy(2, RoundingStrategy::MidpointAwayFromZero)
}

fn money_token(tok: &str) -> Option<Decimal> {
    let t = tok.trim().trim_end_matches(')').trim_start_matches('(');
    let neg = t.starts_with('-');
    let t = t.trim_start_matches('-');
    let t = t.strip_prefix('£')?;
    let clean: String = t.chars().filter(|c| *c != ',').collect();
    let d = Decimal::from_str(&clean).ok()?;
    Some(if neg { Decimal::ZERO - d } else { d })
}

/// every "£1,234.50" / "-£1,234.50" figure of a line, in order
fn money_spans(line: &str) -> Vec<String> {
    let b: Vec<char> = line.chars().collect();
    let mut out = Vec::new();
    let mut i = 0;
    while i < b.len() {
        if b[i] == '£' {
            let neg = i > 0 && b[i - 1] == '-';
            let mut j = i + 1;
            while j < b.len() && (b[j].is_ascii_digit() || b[j] == ',' || b[j] == '.') {
                j += 1;
            }
            let body: String = b[i..j].iter().collect();
            out.push(if neg { format!("-{body}") } else { body });
            i = j;
        } else {
            i += 1;
        }
    }
    out
}

fn num_token(tok: &str) -> Option<Decimal> {
    // a number possibly preceded by a currency symbol or code (format_price: "£4.67", "$150", "JPY12")
    let t = tok.trim();
    let start = t.char_indices().find(|(_, c)| c.is_ascii_digit() || *c == '-').map(|(i, _)| i)?;
    Decimal::from_str(&t[start..]).ok()
}

struct TextCheck<'a> {
    atoms: Vec<vx::B>,
    problems: Vec<String>,
    lines: Vec<&'a str>,
    pos: usize,
}
impl<'a> TextCheck<'a> {
    fn next_line(&mut self, what: &str) -> Option<&'a str> {
        while self.pos < self.lines.len() {
            let l = self.lines[self.pos];
            self.pos += 1;
            if !l.trim().is_empty() {
                return Some(l);
            }
        }
        self.problems.push(format!("text ends before {what}"));
        None
    }
    fn money(&mut self, what: &str, tok: &str, expect: Decimal) {
        match money_token(tok) {
            Some(v) => self.atoms.push(vx::eq_l(&format!("text {what} ({tok})"), v, half_away(expect))),
            None => self.problems.push(format!("{what}: '{tok}' is not a £ figure")),
        }
    }
    fn exact(&mut self, what: &str, tok: &str, expect: Decimal) {
        match num_token(tok) {
            Some(v) => self.atoms.push(vx::eq_l(&format!("text {what} ({tok})"), v, expect)),
            None => self.problems.push(format!("{what}: '{tok}' is not a number")),
        }
    }
}

/// Every figure of a JSON-serialised report mapped back to its term and compared with the computed report (shared by the
/// JSON front-end check and the MCP calculate_report check).
pub fn json_report_figures(js: &Value, rep: &TaxReport, atoms: &mut Vec<vx::B>, problems: &mut Vec<String>) {
    let mut jmoney = |what: &str, v: &Value, expect: Decimal, atoms: &mut Vec<vx::B>, problems: &mut Vec<String>| match v.as_str().and_then(|s| Decimal::from_str(s).ok()) {
        Some(d) => {
            // shown in full or rounded to pence, midpoints away from zero
            atoms.push(vx::or(&[vx::eq_l(&format!("json {what} in full"), d, expect), vx::eq_l(&format!("json {what} rounded half away from zero"), d, half_away(expect))]));
        }
        None => problems.push(format!("json {what}: {v} is not a decimal string")),
    };
    let jexact = |what: &str, v: &Value, expect: Decimal, atoms: &mut Vec<vx::B>, problems: &mut Vec<String>| match v.as_str().and_then(|s| Decimal::from_str(s).ok()) {
        Some(d) => atoms.push(vx::eq_l(&format!("json {what}"), d, expect)),
        None => problems.push(format!("json {what}: {v} is not a decimal string")),
    };
    let jy = js["tax_years"].as_array().cloned().unwrap_or_default();
    if jy.len() != rep.tax_years.len() {
        problems.push("json lists a different number of tax years".into());
    }
    for (y, j) in rep.tax_years.iter().zip(jy.iter()) {
        let yr = y.period.start_year();
        let want_period = format!("{}/{:02}", yr, (yr + 1) % 100);
        if j["period"].as_str() != Some(want_period.as_str()) {
            problems.push(format!("json period {} for tax year {want_period}", j["period"]));
        }
        jmoney(&format!("total_gain {yr}"), &j["total_gain"], y.total_gain, atoms, problems);
        jmoney(&format!("total_loss {yr}"), &j["total_loss"], y.total_loss, atoms, problems);
        jmoney(&format!("net_gain {yr}"), &j["net_gain"], y.net_gain, atoms, problems);
        jmoney(&format!("exempt_amount {yr}"), &j["exempt_amount"], y.exempt_amount, atoms, problems);
        jmoney(&format!("dividend_income {yr}"), &j["dividend_income"], y.dividend_income, atoms, problems);
        jmoney(&format!("dividend_tax_paid {yr}"), &j["dividend_tax_paid"], y.dividend_tax_paid, atoms, problems);
        if j["disposal_count"].as_u64() != Some(y.disposals.len() as u64) {
            problems.push(format!("json disposal_count {yr}"));
        }
        let jd = j["disposals"].as_array().cloned().unwrap_or_default();
        if jd.len() != y.disposals.len() {
            problems.push(format!("json lists a different number of disposals in {yr}"));
        }
        for (d, k) in y.disposals.iter().zip(jd.iter()) {
            let name = format!("{} {}", d.ticker, d.date);
            if k["date"].as_str() != Some(d.date.to_string().as_str()) || k["ticker"].as_str() != Some(d.ticker.as_str()) {
                problems.push(format!("json disposal identity {name}"));
            }
            jexact(&format!("quantity {name}"), &k["quantity"], d.quantity, atoms, problems);
            jmoney(&format!("gross_proceeds {name}"), &k["gross_proceeds"], d.gross_proceeds, atoms, problems);
            jmoney(&format!("proceeds {name}"), &k["proceeds"], d.proceeds, atoms, problems);
            let jm = k["matches"].as_array().cloned().unwrap_or_default();
            if jm.len() != d.matches.len() {
                problems.push(format!("json lists a different number of legs for {name}"));
            }
            for (m, n) in d.matches.iter().zip(jm.iter()) {
                jexact(&format!("leg quantity {name}"), &n["quantity"], m.quantity, atoms, problems);
                jmoney(&format!("leg allowable_cost {name}"), &n["allowable_cost"], m.allowable_cost, atoms, problems);
                jmoney(&format!("leg gain_or_loss {name}"), &n["gain_or_loss"], m.gain_or_loss, atoms, problems);
                let want_rule = format!("{:?}", m.rule);
                if n["rule"].as_str() != Some(want_rule.as_str()) {
                    problems.push(format!("json leg rule {name}"));
                }
                let want_acq = m.acquisition_date.map(|a| a.to_string());
                if n.get("acquisition_date").and_then(|x| x.as_str()).map(|s| s.to_string()) != want_acq {
                    problems.push(format!("json leg acquisition date {name}"));
                }
            }
        }
    }
    let jh = js["holdings"].as_array().cloned().unwrap_or_default();
    if jh.len() != rep.holdings.len() {
        problems.push("json lists a different number of holdings".into());
    }
    for (h, k) in rep.holdings.iter().zip(jh.iter()) {
        jexact(&format!("holding quantity {}", h.ticker), &k["quantity"], h.quantity, atoms, problems);
        jmoney(&format!("holding total_cost {}", h.ticker), &k["total_cost"], h.total_cost, atoms, problems);
    }
}

pub fn c17(sk: &Skeleton) -> Leaf {
    #[cfg(feature = "mcp")]
    if sk.opt_str("variant").as_deref() == Some("mcp") {
        return super::mcp::c17_mcp(sk);
    }
    let mode = Mode::parse(&sk.opt_str("mode").unwrap_or_else(|| "QPF".into()));
    let lines = ledger::instantiate(sk, "lines", &mode);
    let txs = ledger::to_transactions(&lines);
    let mut leaf = Leaf { extra: json!({"ledger": ledger::describe(&lines)}), ..Default::default() };
    let mut cfg = Config::embedded().expect("config");
    // ledgers in years outside the embedded table (labels such as 2008/09, 1999/00, 2099/00): an API-built table, as an
    // override file would give
    for l in &lines {
        use chrono::Datelike;
        for y in [l.date.year() - 1, l.date.year()] {
            if (1900..=2100).contains(&y) {
                cfg.exemptions.entry(y as u16).or_insert(Decimal::from(1000 + (y % 7) * 500));
            }
        }
    }
    let foreign = lines.iter().any(|l| l.cur_p != cgt_core::Currency::GBP || l.cur_f != cgt_core::Currency::GBP);
    let cache = if foreign { cgt_money::load_default_cache().ok() } else { None };
    let rep = match cgt_core::calculator::calculate(&txs, None, cache.as_ref(), &cfg) {
        Ok(r) => r,
        Err(e) => {
            leaf.outcome = "err".into();
            leaf.msg = e.to_string();
            return leaf;
        }
    };
    leaf.outcome = "ok".into();
    leaf.sig = signature(&Ok(rep.clone()), sk);
    // ---------------- JSON
    let js: Value = serde_json::to_value(&rep).unwrap_or(Value::Null);
    let mut atoms = Vec::new();
    let mut problems: Vec<String> = Vec::new();
    json_report_figures(&js, &rep, &mut atoms, &mut problems);
    leaf.ob_bool("C17.json-structure", problems.is_empty(), &problems.join("; "));
    leaf.ob("C17.json-figures", &vx::and(&atoms));

    // ---------------- plain text
    let text = cgt_formatter_plain::format(&rep);
    leaf.extra["text_head"] = json!(text.lines().take(6).collect::<Vec<_>>());
    let mut t = TextCheck { atoms: vec![], problems: vec![], lines: text.lines().collect(), pos: 0 };
    // summary rows
    let zero = Decimal::ZERO;
    let rows: Vec<&str> = t.lines.iter().copied().filter(|l| l.len() > 8 && l.as_bytes()[4] == b'/' && l[..4].bytes().all(|b| b.is_ascii_digit())).collect();
    if rows.len() != rep.tax_years.len() {
        t.problems.push(format!("summary has {} year rows for {} tax years", rows.len(), rep.tax_years.len()));
    }
    for (y, row) in rep.tax_years.iter().zip(rows.iter()) {
        let yr = y.period.start_year();
        // columns are padded to a minimum width only, so long figures touch their neighbour: locate figures by their £ sign
        let head: Vec<&str> = row.split_whitespace().take(2).collect();
        let figs = money_spans(row);
        if head.len() != 2 || figs.len() != 6 {
            t.problems.push(format!("summary row {yr}: {} leading fields, {} £ figures", head.len(), figs.len()));
            continue;
        }
        if head[0] != format!("{}/{:02}", yr, (yr + 1) % 100) {
            t.problems.push(format!("tax year label {} for {yr}", head[0]));
        }
        if head[1].trim_end_matches(|c: char| !c.is_ascii_digit()).split(|c: char| !c.is_ascii_digit()).next() != Some(y.disposals.len().to_string().as_str()) {
            t.problems.push(format!("disposal count {} for {yr}", head[1]));
        }
        t.money(&format!("net gain {yr}"), &figs[0], y.net_gain);
        t.money(&format!("total gain {yr}"), &figs[1], y.total_gain);
        t.money(&format!("total loss {yr}"), &figs[2], y.total_loss);
        t.money(&format!("proceeds {yr}"), &figs[3], sum(y.disposals.iter().map(|d| d.gross_proceeds)));
        t.money(&format!("exemption {yr}"), &figs[4], y.exempt_amount);
        t.money(&format!("taxable gain {yr}"), &figs[5], (y.net_gain - y.exempt_amount).max(zero));
    }
    // details: walk the text after "# TAX YEAR DETAILS"
    if let Some(start) = t.lines.iter().position(|l| l.starts_with("# TAX YEAR DETAILS")) {
        t.pos = start + 1;
        for y in &rep.tax_years {
            let yr = y.period.start_year();
            match t.next_line("tax year heading") {
                Some(h) if h.trim() == format!("## {}/{:02}", yr, (yr + 1) % 100) => {}
                Some(h) => t.problems.push(format!("expected heading for {yr}, found '{h}'")),
                None => break,
            }
            for (i, d) in y.disposals.iter().enumerate() {
                let name = format!("{} {}", d.ticker, d.date);
                let Some(h) = t.next_line("disposal header") else { break };
                // "N) SELL qty TICKER on DD/MM/YYYY - GAIN £x"
                let w: Vec<&str> = h.split_whitespace().collect();
                let gain = sum(d.matches.iter().map(|m| m.gain_or_loss));
                if w.len() == 9 && w[0] == format!("{})", i + 1) && w[1] == "SELL" && w[3] == d.ticker && w[4] == "on" && w[5] == d.date.format("%d/%m/%Y").to_string() {
                    t.exact(&format!("disposal quantity {name}"), w[2], d.quantity);
                    t.money(&format!("headline result {name}"), w[8], gain.abs());
                    let is_gain = w[7] == "GAIN";
                    if !is_gain && w[7] != "LOSS" {
                        t.problems.push(format!("disposal header word '{}'", w[7]));
                    }
                    // GAIN iff the result is not negative
                    if is_gain {
                        t.atoms.push(vx::le_l(&format!("GAIN label on a non-negative result {name}"), zero, gain));
                    } else {
                        t.atoms.push(vx::lt_l(&format!("LOSS label on a negative result {name}"), gain, zero));
                    }
                } else {
                    t.problems.push(format!("disposal header for {name}: '{h}'"));
                }
                for m in &d.matches {
                    let Some(l) = t.next_line("leg line") else { break };
                    let w: Vec<&str> = l.split_whitespace().collect();
                    match m.rule {
                        cgt_core::MatchRule::SameDay if w.len() == 4 && w[0] == "Same" && w[1] == "Day:" => t.exact(&format!("same-day leg quantity {name}"), w[2], m.quantity),
                        cgt_core::MatchRule::BedAndBreakfast if w.len() == 5 && w[0] == "B&B:" => {
                            t.exact(&format!("30-day leg quantity {name}"), w[1], m.quantity);
                            if Some(w[4].to_string()) != m.acquisition_date.map(|a| a.format("%d/%m/%Y").to_string()) {
                                t.problems.push(format!("30-day leg date '{}' {name}", w[4]));
                            }
                        }
                        cgt_core::MatchRule::Section104 if w.len() == 6 && w[0] == "Section" && w[1] == "104:" => {
                            t.exact(&format!("pool leg quantity {name}"), w[2], m.quantity);
                            t.exact(&format!("pool leg unit cost {name}"), w[5], half_away(m.allowable_cost / m.quantity));
                        }
                        _ => t.problems.push(format!("leg line for {:?} of {name}: '{l}'", m.rule)),
                    }
                }
                let Some(g) = t.next_line("gross proceeds line") else { break };
                let w: Vec<&str> = g.split_whitespace().collect();
                if w.len() == 7 && w[0] == "Gross" {
                    t.exact(&format!("gross line quantity {name}"), w[2], d.quantity);
                    t.money(&format!("gross proceeds {name}"), w[6], d.gross_proceeds);
                } else {
                    t.problems.push(format!("gross proceeds line of {name}: '{g}'"));
                }
                let fees = d.gross_proceeds - d.proceeds;
                let mut l = t.next_line("net/cost line");
                if let Some(n) = l {
                    if n.trim_start().starts_with("Net Proceeds:") {
                        let w: Vec<&str> = n.split_whitespace().collect();
                        if w.len() == 8 {
                            t.money(&format!("net line gross {name}"), w[2], d.gross_proceeds);
                            t.money(&format!("net line fees {name}"), w[4], fees);
                            t.money(&format!("net proceeds {name}"), w[7], d.proceeds);
                        } else {
                            t.problems.push(format!("net proceeds line of {name}: '{n}'"));
                        }
                        t.atoms.push(vx::lt_l(&format!("net line shown only with fees {name}"), zero, fees));
                        l = t.next_line("cost line");
                    } else {
                        t.atoms.push(vx::le_l(&format!("net line omitted only without fees {name}"), fees, zero));
                    }
                }
                if let Some(c) = l {
                    let w: Vec<&str> = c.split_whitespace().collect();
                    if w.len() == 2 && w[0] == "Cost:" {
                        t.money(&format!("cost {name}"), w[1], sum(d.matches.iter().map(|m| m.allowable_cost)));
                    } else {
                        t.problems.push(format!("cost line of {name}: '{c}'"));
                    }
                }
                if let Some(r) = t.next_line("result line") {
                    let w: Vec<&str> = r.split_whitespace().collect();
                    if w.len() == 2 && w[0] == "Result:" {
                        t.money(&format!("result {name}"), w[1], gain);
                    } else {
                        t.problems.push(format!("result line of {name}: '{r}'"));
                    }
                }
            }
        }
        // holdings
        if let Some(h) = t.lines.iter().position(|l| l.starts_with("# HOLDINGS")) {
            t.pos = h + 1;
            for hd in rep.holdings.iter() {
                // a holding is listed iff its quantity is positive (decided by the formatter's own branch)
                let listed = t.lines.iter().skip(h + 1).take_while(|l| !l.starts_with("# ")).find(|l| l.starts_with(&format!("{}: ", hd.ticker)));
                match listed {
                    Some(l) => {
                        let w: Vec<&str> = l.split_whitespace().collect();
                        if w.len() == 7 {
                            t.exact(&format!("holding quantity {}", hd.ticker), w[1], hd.quantity);
                            t.exact(&format!("holding average cost {}", hd.ticker), w[4], half_away(hd.total_cost / hd.quantity));
                            t.atoms.push(vx::lt_l(&format!("listed holding is positive {}", hd.ticker), zero, hd.quantity));
                        } else {
                            t.problems.push(format!("holding line '{l}'"));
                        }
                    }
                    None => t.atoms.push(vx::le_l(&format!("unlisted holding is empty {}", hd.ticker), hd.quantity, zero)),
                }
            }
        } else {
            t.problems.push("no HOLDINGS section".into());
        }
    } else {
        t.problems.push("no TAX YEAR DETAILS section".into());
    }
    // transactions echo: every BUY/SELL with exact quantity and price
    if let Some(h) = t.lines.iter().position(|l| l.starts_with("# TRANSACTIONS")) {
        let echo: Vec<&str> = t.lines.iter().skip(h + 1).take_while(|l| !l.starts_with("# ")).copied().filter(|l| !l.trim().is_empty()).collect();
        let mut trades: Vec<&Transaction> = rep.transactions.iter().filter(|x| matches!(x.operation, Operation::Buy { .. } | Operation::Sell { .. })).collect();
        trades.sort_by(|a, b| a.date.cmp(&b.date).then_with(|| a.ticker.cmp(&b.ticker)));
        if echo.len() != trades.len() {
            t.problems.push(format!("{} echoed trades for {} BUY/SELL lines", echo.len(), trades.len()));
        }
        for (x, l) in trades.iter().zip(echo.iter()) {
            let w: Vec<&str> = l.split_whitespace().collect();
            if let Operation::Buy { amount, price, fees } | Operation::Sell { amount, price, fees } = &x.operation {
                if w.len() == 8 && w[0] == x.date.format("%d/%m/%Y").to_string() && w[3] == x.ticker {
                    t.exact(&format!("echoed quantity {} {}", x.ticker, x.date), w[2], *amount);
                    t.exact(&format!("echoed price {} {}", x.ticker, x.date), w[5], price.amount);
                    t.exact(&format!("echoed fees {} {}", x.ticker, x.date), w[6].trim_start_matches('('), fees.amount);
                } else {
                    t.problems.push(format!("echo line '{l}'"));
                }
            }
        }
    }
    // asset events: every DIVIDEND / ACCUMULATION / CAPRETURN / SPLIT / UNSPLIT line with its amount in its own currency,
    // rounded to that currency's minor units (midpoints away from zero)
    let mut events: Vec<&Transaction> = rep.transactions.iter().filter(|x| !matches!(x.operation, Operation::Buy { .. } | Operation::Sell { .. })).collect();
    events.sort_by(|a, b| a.date.cmp(&b.date).then_with(|| a.ticker.cmp(&b.ticker)));
    let ev_lines: Vec<&str> = match t.lines.iter().position(|l| l.starts_with("# ASSET EVENTS")) {
        Some(h) => t.lines.iter().skip(h + 1).take_while(|l| !l.starts_with("# ")).copied().filter(|l| !l.trim().is_empty()).collect(),
        None => vec![],
    };
    if ev_lines.len() != events.len() {
        t.problems.push(format!("{} asset-event lines for {} event transactions", ev_lines.len(), events.len()));
    }
    for (x, l) in events.iter().zip(ev_lines.iter()) {
        let w: Vec<&str> = l.split_whitespace().collect();
        let name = format!("{} {}", x.ticker, x.date);
        let mut amount_check = |t: &mut TextCheck, toks: &[&str], ca: &CurrencyAmount| {
            if ca.is_gbp() {
                if toks.len() == 1 {
                    t.money(&format!("event amount {name}"), toks[0], ca.amount);
                } else {
                    t.problems.push(format!("event amount of {name}: {toks:?}"));
                }
            } else if toks.len() == 2 && toks[1] == ca.code() {
                let mu = ca.minor_units() as u32;
                t.exact(&format!("event amount {name} in {}", ca.code()), toks[0], ca.amount.round_dp_with_strategy(mu, RoundingStrategy::MidpointAwayFromZero));
            } else {
                t.problems.push(format!("event amount of {name}: {toks:?} (currency {})", ca.code()));
            }
        };
        if w.len() < 4 || w[0] != x.date.format("%d/%m/%Y").to_string() {
            t.problems.push(format!("asset-event line '{l}'"));
            continue;
        }
        match &x.operation {
            Operation::Dividend { total_value, .. } if w[1] == "DIVIDEND" && w[2] == x.ticker => amount_check(&mut t, &w[3..], total_value),
            Operation::Accumulation { amount, total_value, .. } if w[1] == "ACCUMULATION" && w[2] == x.ticker && w.len() >= 5 => {
                t.exact(&format!("event quantity {name}"), w[3], *amount);
                amount_check(&mut t, &w[4..], total_value);
            }
            Operation::CapReturn { amount, total_value, .. } if w[1] == "CAPRETURN" && w[2] == x.ticker && w.len() >= 5 => {
                t.exact(&format!("event quantity {name}"), w[3], *amount);
                amount_check(&mut t, &w[4..], total_value);
            }
            Operation::Split { ratio } if w[1] == "SPLIT" && w[2] == x.ticker && w.len() == 4 => t.exact(&format!("split ratio {name}"), w[3], *ratio),
            Operation::Unsplit { ratio } if w[1] == "UNSPLIT" && w[2] == x.ticker && w.len() == 4 => t.exact(&format!("unsplit ratio {name}"), w[3], *ratio),
            _ => t.problems.push(format!("asset-event line '{l}' for {:?}", op_kind(&x.operation))),
        }
    }
    let TextCheck { atoms: tatoms, problems: tproblems, .. } = t;
    leaf.ob_bool("C17.text-structure", tproblems.is_empty(), &tproblems.join("; "));
    leaf.ob("C17.text-figures", &vx::and(&tatoms));
    leaf
}

// ------------------------------------------------------------------------------------------------ C13 (replay side)
/// Concrete re-evaluation for PEGSMT: opts.texts = [a, b] (and optionally opts.mode = "same" | "same-acceptance").
/// Runs the REAL parser on both strings; used to replay solver counterexamples and to validate the encoding on the corpus.
pub fn c13_parse(sk: &Skeleton) -> Leaf {
    let mut leaf = Leaf { outcome: "ok".into(), ..Default::default() };
    let texts: Vec<String> = sk.raw["opts"]["texts"].as_array().map(|a| a.iter().map(|x| x.as_str().unwrap_or("").to_string()).collect()).unwrap_or_default();
    let parsed: Vec<Result<Vec<Transaction>, String>> = texts.iter().map(|t| cgt_core::parser::parse_file(t).map_err(|e| e.to_string())).collect();
    leaf.extra = json!({"results": parsed.iter().map(|r| match r { Ok(v) => json!({"accepted": true, "transactions": v.len()}), Err(e) => json!({"accepted": false, "error": e.lines().take(4).collect::<Vec<_>>().join(" | ")}) }).collect::<Vec<_>>()});
    let mode1 = sk.opt_str("mode").unwrap_or_default();
    if texts.len() == 1 && mode1 == "error-line" {
        // a text whose line `expect_line` (1-based, counting LF, CRLF and CR line ends alike) was corrupted: it must be rejected and
        // the error must name that line (pest's " --> line:column")
        let want = sk.opt_i64("expect_line").unwrap_or(0);
        let (ok, detail) = match &parsed[0] {
            Ok(v) => (false, format!("accepted with {} transactions", v.len())),
            Err(e) => {
                let got = e.find("--> ").and_then(|i| e[i + 4..].split(':').next().and_then(|x| x.trim().parse::<i64>().ok()));
                (got == Some(want), format!("error names line {got:?}, the corrupted line is {want}: {}", e.lines().take(3).collect::<Vec<_>>().join(" | ")))
            }
        };
        leaf.ob_bool("C13.error-names-the-offending-line", ok, &format!("{detail} in {:?}", texts[0]));
        return leaf;
    }
    if texts.len() == 1 && mode1 == "count" {
        // every content line of an accepted text yields exactly one transaction (nothing silently skipped)
        let want = sk.opt_i64("expect_n").unwrap_or(0) as usize;
        let ok = matches!(&parsed[0], Ok(v) if v.len() == want);
        leaf.ob_bool("C13.one-transaction-per-content-line", ok, &format!("{want} content lines in {:?}: {}", texts[0], leaf.extra["results"][0]));
        return leaf;
    }
    if texts.len() == 2 {
        let mode = sk.opt_str("mode").unwrap_or_else(|| "same".into());
        let ok = match (&parsed[0], &parsed[1]) {
            (Ok(a), Ok(b)) => a == b,
            (Err(_), Err(_)) => mode == "same-acceptance",
            (Ok(_), Err(_)) => false,
            (Err(_), Ok(_)) => mode == "same",
        };
        // "same": whenever the first text is accepted, the variant is accepted and parses to the same transactions
        let ok = if mode == "same" { matches!(&parsed[0], Err(_)) || ok } else { ok };
        // "second-rejected": whenever the first text is accepted, the corrupted variant is rejected
        let ok = if mode == "second-rejected" { parsed[0].is_err() || parsed[1].is_err() } else { ok };
        leaf.ob_bool("C13.variant-parses-the-same", ok, &format!("{:?} vs {:?}", texts[0], texts[1]));
    }
    leaf
}

// ------------------------------------------------------------------------------------------------ SHIM (setup)
/// Differential validation of the symbolic rust_decimal stand-in against the real crate: the same concrete operations are
/// evaluated by both builds (`symx run SHIM` / `replay run SHIM`) and the driver compares the printed results.
pub fn shim_probe(_sk: &Skeleton) -> Leaf {
    let mut leaf = Leaf { outcome: "ok".into(), ..Default::default() };
    let lits = [
        "0", "1", "-1", "0.5", "-0.5", "0.005", "-0.005", "0.015", "0.025", "-0.025", "1.005", "2.675", "123456.789", "-123456.789", "0.0000001", "1000000", "99.995",
        "0.125", "0.135", "7", "3", "0.3", "12.3450", "100.00", "-0.00", "19.999", "0.045", "-2.5", "2.5", "3.5", "1234567.891",
    ];
    let vals: Vec<Decimal> = lits.iter().map(|s| Decimal::from_str(s).expect("literal")).collect();
    let mut out: Vec<String> = Vec::new();
    let strategies = [
        RoundingStrategy::MidpointNearestEven,
        RoundingStrategy::MidpointAwayFromZero,
        RoundingStrategy::MidpointTowardZero,
        RoundingStrategy::ToZero,
        RoundingStrategy::AwayFromZero,
        RoundingStrategy::ToNegativeInfinity,
        RoundingStrategy::ToPositiveInfinity,
    ];
    for (i, a) in vals.iter().enumerate() {
        out.push(format!("str {} = {}", lits[i], a));
        out.push(format!("abs {} = {}", lits[i], a.abs()));
        out.push(format!("neg {} = {}", lits[i], -*a));
        out.push(format!("zero? {} = {} neg? {}", lits[i], a.is_zero(), *a < Decimal::ZERO));
        for dp in [0u32, 1, 2, 4] {
            out.push(format!("round_dp({dp}) {} = {}", lits[i], a.round_dp(dp)));
            for st in strategies {
                out.push(format!("round({dp},{st:?}) {} = {}", lits[i], a.round_dp_with_strategy(dp, st)));
            }
        }
        out.push(format!("fmt.2 {} = {:.2}", lits[i], a));
        out.push(format!("fmt.0 {} = {:.0}", lits[i], a));
        out.push(format!("fmt.4 {} = {:.4}", lits[i], a));
        out.push(format!("trunc {} = {} floor {} ceil {}", lits[i], a.trunc(), a.floor(), a.ceil()));
        for (j, b) in vals.iter().enumerate() {
            out.push(format!("add {} {} = {}", lits[i], lits[j], *a + *b));
            out.push(format!("sub {} {} = {}", lits[i], lits[j], *a - *b));
            out.push(format!("mul {} {} = {}", lits[i], lits[j], *a * *b));
            if !b.is_zero() {
                out.push(format!("div {} {} = {}", lits[i], lits[j], *a / *b));
            }
            out.push(format!("cmp {} {} = {:?} eq {} min {} max {}", lits[i], lits[j], a.cmp(b), a == b, (*a).min(*b), (*a).max(*b)));
        }
    }
    let s: Decimal = vals.iter().sum();
    out.push(format!("sum = {s}"));
    for bad in ["", ".", "1.2.3", "abc", "1e5", "--1", "1 2", "+", "-"] {
        out.push(format!("parse {:?} ok={}", bad, Decimal::from_str(bad).is_ok()));
    }
    for good in ["+5", "007", "1.", ".5", "1_000", "0.10"] {
        out.push(format!("parse {:?} = {:?}", good, Decimal::from_str(good).map(|d| d.to_string()).map_err(|_| "err")));
    }
    let js = serde_json::to_string(&vals[10]).unwrap_or_default();
    out.push(format!("json {js}"));
    for src in ["\"1.50\"", "1.5", "3", "-2"] {
        out.push(format!("from json {src} = {:?}", serde_json::from_str::<Decimal>(src).map(|d| d.to_string()).map_err(|_| "err")));
    }
    leaf.extra = json!({"lines": out});
    leaf
}
