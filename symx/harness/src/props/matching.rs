//! C01 (identification rules, differential against spec.rs), C02 (share conservation),
//! C03 (cost conservation), C05 (report iff covered).

use super::common::*;
use crate::ledger::{self, Kind, Line, Mode, Skeleton};
use crate::spec::{self, Rule};
use crate::{Leaf, vx};
use rust_decimal::Decimal;
use serde_json::json;
use std::collections::BTreeMap;

pub fn run(prop: &str, sk: &Skeleton) -> Leaf {
    let mode = Mode::parse(&sk.opt_str("mode").unwrap_or_else(|| "QPF".into()));
    let lines = ledger::instantiate(sk, "lines", &mode);
    let txs = ledger::to_transactions(&lines);
    let level = sk.opt_str("level").unwrap_or_else(|| "matcher".into());
    let res = run_level(&level, sk, &txs);
    let mut leaf = Leaf { sig: outcome_signature(&res), ..Default::default() };
    leaf.extra = json!({"ledger": ledger::describe(&lines)});
    match &res {
        Ok(o) => {
            leaf.outcome = "ok".into();
            let ds = &o.disposals;
            match prop {
                "C01" => c01(&mut leaf, &lines, ds),
                "C02" => c02(&mut leaf, &lines, ds, &o.holdings),
                "C03" => c03(&mut leaf, &lines, ds, &o.holdings),
                "C05" => c05_ok(&mut leaf, &lines),
                _ => unreachable!(),
            }
        }
        Err(e) => {
            leaf.outcome = "err".into();
            leaf.msg = e.to_string();
            if prop == "C05" {
                c05_err(&mut leaf, sk, &lines, &e.to_string());
            }
        }
    }
    leaf
}

fn rule_of(r: &Rule) -> u8 {
    match r {
        Rule::SameDay => 0,
        Rule::Bnb => 1,
        Rule::Pool => 2,
    }
}

/// all-days coverage as one formula
fn covered(lines: &[Line]) -> vx::B {
    let hs = spec::holdings_after_each_sale_day(lines);
    let atoms: Vec<vx::B> =
        hs.iter().map(|(t, d, h)| vx::le_l(&format!("holding after {t} day {d} >= 0"), Decimal::ZERO, *h)).collect();
    vx::and(&atoms)
}

fn c01(leaf: &mut Leaf, lines: &[Line], ds: &[IDisposal]) {
    let sp = spec::evaluate(lines);
    if let Some((t, d)) = &sp.uncovered {
        // the statute has nothing to say about a sale of shares that are not held; C05 owns that case
        leaf.outcome = "ok-spec-uncovered".into();
        leaf.msg = format!("{t} day {d}");
        return;
    }
    let agg = aggregate(ds);
    let mut sagg: BTreeMap<LegKey, (Decimal, Decimal)> = BTreeMap::new();
    for l in &sp.legs {
        let e = sagg.entry((l.ticker.clone(), l.sell_day, rule_of(&l.rule), l.acq_day)).or_insert((Decimal::ZERO, Decimal::ZERO));
        e.0 = e.0 + l.qty;
        e.1 = e.1 + l.cost;
    }
    let ik: Vec<&LegKey> = agg.keys().collect();
    let skk: Vec<&LegKey> = sagg.keys().collect();
    let same = ik == skk;
    leaf.extra["impl_legs"] = json!(ik.iter().map(|k| json!([k.0, k.1, k.2, k.3])).collect::<Vec<_>>());
    leaf.extra["spec_legs"] = json!(skk.iter().map(|k| json!([k.0, k.1, k.2, k.3])).collect::<Vec<_>>());
    if !leaf.ob_bool("C01.leg-structure", same, "set of (security, disposal day, rule, acquisition day) differs from the statute") {
        return;
    }
    let q: Vec<vx::B> = agg.iter().map(|(k, v)| vx::eq_l(&format!("qty of leg {k:?}"), v.0, sagg[k].0)).collect();
    leaf.ob("C01.leg-quantity", &vx::and(&q));
    // line orders that leave same-day trades unmerged (known finding F-C06) change per-lot costs, not which shares are
    // identified with which acquisition: quantities are still compared, costs are not
    if !has_events(lines) && !unmerged_order(lines) {
        let c: Vec<vx::B> = agg.iter().map(|(k, v)| vx::eq_l(&format!("cost of leg {k:?}"), v.1, sagg[k].1)).collect();
        leaf.ob("C01.leg-cost", &vx::and(&c));
        // proceeds and gain per disposal
        let mut atoms = Vec::new();
        for sd in &sp.disposals {
            let Some(d) = ds.iter().find(|d| d.ticker == sd.ticker && d.day == sd.day) else {
                atoms.push(vx::lit(false, &format!("disposal {} day {} missing", sd.ticker, sd.day)));
                continue;
            };
            let tol = Decimal::new(5, 11); // proceeds are normalised to 10 places by the tool
            atoms.push(vx::near_l(&format!("gross {} day {}", sd.ticker, sd.day), d.gross, sd.gross, tol));
            atoms.push(vx::near_l(&format!("net proceeds {} day {}", sd.ticker, sd.day), d.proceeds, sd.gross - sd.fees, tol));
            let gain = sum(d.legs.iter().map(|l| l.gain));
            let scost = sum(sp.legs.iter().filter(|l| l.ticker == sd.ticker && l.sell_day == sd.day).map(|l| l.cost));
            atoms.push(vx::eq_l(&format!("gain {} day {}", sd.ticker, sd.day), gain, sd.gross - sd.fees - scost));
        }
        leaf.ob("C01.proceeds-gain", &vx::and(&atoms));
    }
}

fn c02(leaf: &mut Leaf, lines: &[Line], ds: &[IDisposal], holdings: &BTreeMap<String, (Decimal, Decimal)>) {
    // (a) one disposal per (security, day with a SELL), legs add up to the quantity sold
    let mut sold: BTreeMap<(String, i64), Decimal> = BTreeMap::new();
    for l in lines.iter().filter(|l| l.kind == Kind::Sell) {
        let e = sold.entry((l.ticker.clone(), l.day)).or_insert(Decimal::ZERO);
        *e = *e + l.q;
    }
    let dk: Vec<(String, i64)> = {
        let mut v: Vec<_> = ds.iter().map(|d| (d.ticker.clone(), d.day)).collect();
        v.sort();
        v
    };
    let sk: Vec<(String, i64)> = sold.keys().cloned().collect();
    if !leaf.ob_bool("C02.disposal-set", dk == sk, "reported disposals are not exactly the (security, day) pairs with a SELL") {
        return;
    }
    let mut a = Vec::new();
    for d in ds {
        let s = sold[&(d.ticker.clone(), d.day)];
        a.push(vx::eq_l(&format!("legs of {} day {} add up to sold", d.ticker, d.day), sum(d.legs.iter().map(|l| l.qty)), s));
        a.push(vx::eq_l(&format!("Disposal.quantity {} day {}", d.ticker, d.day), d.qty, s));
        for l in &d.legs {
            a.push(vx::lt_l(&format!("leg quantity positive {} day {}", d.ticker, d.day), Decimal::ZERO, l.qty));
        }
    }
    leaf.ob("C02.legs-sum-to-sold", &vx::and(&a));
    // (b) per acquisition day: same-day + 30-day legs (in that day's units) never exceed what was bought
    let mut bought: BTreeMap<(String, i64), Decimal> = BTreeMap::new();
    for l in lines.iter().filter(|l| l.kind == Kind::Buy) {
        let e = bought.entry((l.ticker.clone(), l.day)).or_insert(Decimal::ZERO);
        *e = *e + l.q;
    }
    let mut used: BTreeMap<(String, i64), Decimal> = BTreeMap::new();
    let mut structural = true;
    for d in ds {
        for l in &d.legs {
            if let Some(ad) = l.acq_day {
                if l.rule == 2 || !bought.contains_key(&(l.ticker.clone(), ad)) || ad < l.sell_day || (l.rule == 0) != (ad == l.sell_day) {
                    structural = false;
                    continue;
                }
                let r = spec::ratio_between(lines, &l.ticker, l.sell_day, ad);
                let e = used.entry((l.ticker.clone(), ad)).or_insert(Decimal::ZERO);
                *e = *e + l.qty * r;
            } else if l.rule != 2 {
                structural = false;
            }
        }
    }
    leaf.ob_bool("C02.leg-dates", structural, "a leg names an acquisition day without a BUY, before its disposal, or a pool leg carries a date");
    let b: Vec<vx::B> =
        used.iter().map(|(k, u)| vx::le_l(&format!("matched against {} day {} <= bought", k.0, k.1), *u, bought[k])).collect();
    leaf.ob("C02.acquisition-not-overmatched", &vx::and(&b));
    // (c) closing holding
    let want = spec::closing_holdings(lines);
    let mut c = Vec::new();
    for (t, h) in &want {
        let have = holdings.get(t).map(|x| x.0).unwrap_or(Decimal::ZERO);
        c.push(vx::eq_l(&format!("closing holding {t}"), have, *h));
    }
    let extra_ticker = holdings.keys().any(|h| !want.contains_key(h));
    leaf.ob_bool("C02.holding-tickers", !extra_ticker, "holding reported for a security that is not in the ledger");
    leaf.ob("C02.closing-holding", &vx::and(&c));
}

/// holding of `ticker` at the start of day `day` (trades strictly before it, splits up to the previous day end)
fn held_before(lines: &[Line], ticker: &str, day: i64) -> Decimal {
    let before: Vec<Line> = lines.iter().filter(|l| l.ticker == ticker && l.day < day).cloned().collect();
    spec::closing_holdings(&before).get(ticker).copied().unwrap_or(Decimal::ZERO)
}

fn c03(leaf: &mut Leaf, lines: &[Line], ds: &[IDisposal], holdings: &BTreeMap<String, (Decimal, Decimal)>) {
    let mut atoms = Vec::new();
    for t in spec::tickers(lines) {
        let mut expect = Decimal::ZERO;
        for l in lines.iter().filter(|l| l.ticker == t) {
            match l.kind {
                Kind::Buy => expect = expect + l.q * l.p + l.f,
                Kind::Accum | Kind::CapReturn => {
                    // the event takes effect iff shares are held when it happens
                    let h = held_before(lines, &t, l.day);
                    if h > Decimal::ZERO {
                        if l.kind == Kind::Accum {
                            expect = expect + l.p;
                        } else {
                            expect = expect - (l.p - l.f);
                        }
                    }
                }
                _ => {}
            }
        }
        let legs = sum(ds.iter().filter(|d| d.ticker == t).flat_map(|d| d.legs.iter().map(|l| l.cost)));
        let hold = holdings.get(&t).map(|h| h.1).unwrap_or(Decimal::ZERO);
        atoms.push(vx::eq_l(&format!("cost conservation {t}"), legs + hold, expect));
    }
    leaf.ob("C03.cost-conserved", &vx::and(&atoms));
}

fn c05_ok(leaf: &mut Leaf, lines: &[Line]) {
    leaf.ob("C05.accepted-implies-covered", &covered(lines));
    // boundary witnesses: inputs of this path on which some sale disposes of the ENTIRE holding. They are replayed on the
    // real build, where 28-digit decimal residue (not modelled symbolically) could make the tool refuse a covered sale.
    if !vx::SYMBOLIC {
        return;
    }
    let mut bw = Vec::new();
    for (t, d, h) in spec::holdings_after_each_sale_day(lines) {
        if bw.len() >= 2 {
            break;
        }
        if let Some(w) = vx::witness_with(&[vx::eq_l(&format!("entire holding of {t} sold on day {d}"), h, Decimal::ZERO)]) {
            let mut o = serde_json::Map::new();
            for (k, v) in w {
                o.insert(k, serde_json::Value::String(v));
            }
            bw.push(serde_json::Value::Object(o));
        }
    }
    // ... and inputs on which a sale claims an ENTIRE later purchase across a split whose ratio has a non-terminating
    // reciprocal, the purchase being 0.02 or 2 shares (x/3*3 rounds a hair above x for such x in 28-digit arithmetic)
    let mut extra = 0;
    for b in lines.iter().filter(|l| l.kind == Kind::Buy) {
        for sl in lines.iter().filter(|l| l.kind == Kind::Sell && l.ticker == b.ticker && l.day < b.day && b.day - l.day <= 30) {
            let rho = spec::ratio_between(lines, &b.ticker, sl.day, b.day);
            if extra >= 2 || vx::show(rho) == "1/1" {
                continue;
            }
            for v in [Decimal::new(2, 2), Decimal::from(2)] {
                if let Some(w) = vx::witness_with(&[vx::eq(b.q, v), vx::ge(sl.q * rho, b.q)]) {
                    let mut o = serde_json::Map::new();
                    for (k, x) in w {
                        o.insert(k, serde_json::Value::String(x));
                    }
                    bw.push(serde_json::Value::Object(o));
                    extra += 1;
                }
            }
        }
    }
    if !bw.is_empty() {
        leaf.extra["boundary_witnesses"] = serde_json::Value::Array(bw);
    }
}

fn c05_err(leaf: &mut Leaf, sk: &Skeleton, lines: &[Line], msg: &str) {
    let class = if msg.contains("S122") { "s122" } else { "other" };
    if class == "s122" {
        leaf.outcome = "err-s122".into();
        return; // an over-large capital return is an obstacle the property excludes
    }
    leaf.ob("C05.rejected-implies-uncovered", &vx::not(&covered(lines)));
    // the message names a security and a date on which the holding is short
    let hs = spec::holdings_after_each_sale_day(lines);
    let named = hs.iter().find(|(t, d, _)| msg.contains(&format!("SELL {} on {}", t, sk.date(*d))));
    match named {
        Some((t, d, h)) => {
            leaf.ob("C05.error-names-uncovered-sale", &vx::lt_l(&format!("holding after {t} day {d} < 0"), *h, Decimal::ZERO));
        }
        None => {
            leaf.ob_bool("C05.error-names-uncovered-sale", false, "error message names no (security, date) of a SELL line");
        }
    }
}

/// after a stable sort by date: two same-day same-kind trade lines of one security separated by another line
fn unmerged_order(lines: &[Line]) -> bool {
    let mut v: Vec<&Line> = lines.iter().collect();
    v.sort_by_key(|l| l.day);
    for i in 0..v.len() {
        if !matches!(v[i].kind, Kind::Buy | Kind::Sell) {
            continue;
        }
        let mut gap = false;
        for j in i + 1..v.len() {
            if v[j].day != v[i].day {
                break;
            }
            if v[j].kind == v[i].kind && v[j].ticker == v[i].ticker {
                if gap {
                    return true;
                }
            } else {
                gap = true;
            }
        }
    }
    false
}
