//! Reference evaluator of TCGA92 s105(1) (same day), s106A (30 days) and s104 (pool), written from
//! docs/tax-rules.md and the statute, NOT from the matcher.  It runs on the same `Decimal` values as the
//! implementation (symbolic in the SYMX build, concrete in the replay build); its own comparisons fork
//! like the implementation's.
//!
//! Reading of intra-day order (the one the tool's main pass uses): a day's purchases and sales are
//! aggregated, SPLIT/UNSPLIT lines of a day take effect after that day's trades, CAPRETURN/ACCUMULATION
//! are not modelled here (ledgers containing them are compared on legs only, never on cost).

use crate::ledger::{Kind, Line};
use rust_decimal::Decimal;
use std::collections::BTreeMap;

#[derive(Clone, Debug, PartialEq, Eq, PartialOrd, Ord)]
pub enum Rule {
    SameDay,
    Bnb,
    Pool,
}

#[derive(Clone, Debug)]
pub struct Leg {
    pub ticker: String,
    pub sell_day: i64,
    pub rule: Rule,
    /// acquisition day (None for the pool)
    pub acq_day: Option<i64>,
    /// in the units current on the disposal day
    pub qty: Decimal,
    pub cost: Decimal,
}

#[derive(Clone, Debug)]
pub struct DayDisposal {
    pub ticker: String,
    pub day: i64,
    pub qty: Decimal,
    pub gross: Decimal,
    pub fees: Decimal,
}

#[derive(Clone, Debug, Default)]
pub struct SpecResult {
    pub legs: Vec<Leg>,
    pub disposals: Vec<DayDisposal>,
    /// closing pool per ticker: (quantity, cost)
    pub pools: BTreeMap<String, (Decimal, Decimal)>,
    /// the statute leaves a remainder that the pool cannot cover (ledger not covered)
    pub uncovered: Option<(String, i64)>,
}

#[derive(Default, Clone)]
struct Day {
    bought: Decimal,
    buy_cost: Decimal,
    sold: Decimal,
    gross: Decimal,
    fees: Decimal,
    /// product of the day's split ratios (split r => ×r, unsplit r => ÷r), applied after the day's trades
    ratio: Option<Decimal>,
}

fn days_of(lines: &[Line], ticker: &str) -> BTreeMap<i64, Day> {
    let mut m: BTreeMap<i64, Day> = BTreeMap::new();
    for l in lines.iter().filter(|l| l.ticker == ticker) {
        let d = m.entry(l.day).or_default();
        match l.kind {
            Kind::Buy => {
                d.bought = d.bought + l.q;
                d.buy_cost = d.buy_cost + l.q * l.p + l.f;
            }
            Kind::Sell => {
                d.sold = d.sold + l.q;
                d.gross = d.gross + l.q * l.p;
                d.fees = d.fees + l.f;
            }
            Kind::Split => d.ratio = Some(d.ratio.unwrap_or(Decimal::ONE) * l.q),
            Kind::Unsplit => d.ratio = Some(d.ratio.unwrap_or(Decimal::ONE) / l.q),
            _ => {}
        }
    }
    m
}

pub fn tickers(lines: &[Line]) -> Vec<String> {
    let mut t: Vec<String> = lines.iter().map(|l| l.ticker.clone()).collect();
    t.sort();
    t.dedup();
    t
}

/// Evaluate the identification rules for every security of the ledger.
pub fn evaluate(lines: &[Line]) -> SpecResult {
    let mut res = SpecResult::default();
    for t in tickers(lines) {
        eval_ticker(lines, &t, &mut res);
        if res.uncovered.is_some() {
            break;
        }
    }
    res
}

fn eval_ticker(lines: &[Line], ticker: &str, res: &mut SpecResult) {
    let zero = Decimal::ZERO;
    let days = days_of(lines, ticker);
    let keys: Vec<i64> = days.keys().copied().collect();
    let mut claimed: BTreeMap<i64, Decimal> = BTreeMap::new();
    let mut pool_q = zero;
    let mut pool_c = zero;
    let has_day_trade = |d: &Day| d.bought > zero || d.sold > zero;
    for (ki, &dd) in keys.iter().enumerate() {
        let day = &days[&dd];
        let has_buy = lines.iter().any(|l| l.ticker == ticker && l.day == dd && l.kind == Kind::Buy);
        let has_sell = lines.iter().any(|l| l.ticker == ticker && l.day == dd && l.kind == Kind::Sell);
        let _ = has_day_trade;
        let mut same_day = zero;
        if has_sell {
            res.disposals.push(DayDisposal { ticker: ticker.to_string(), day: dd, qty: day.sold, gross: day.gross, fees: day.fees });
            let mut rem = day.sold;
            // s105(1): same-day acquisitions first, all of the day's acquisitions treated as one
            if has_buy {
                same_day = day.sold.min(day.bought);
                if same_day > zero {
                    let cost = same_day * (day.buy_cost / day.bought);
                    res.legs.push(Leg { ticker: ticker.to_string(), sell_day: dd, rule: Rule::SameDay, acq_day: Some(dd), qty: same_day, cost });
                    rem = rem - same_day;
                }
            }
            // s106A: acquisitions in the following 30 days, earliest first
            let mut rho = day.ratio.unwrap_or(Decimal::ONE); // splits on the disposal day act after its trades
            for &d2 in keys.iter().skip(ki + 1) {
                if d2 - dd > 30 {
                    break;
                }
                if !(rem > zero) {
                    break;
                }
                let day2 = &days[&d2];
                let has_buy2 = lines.iter().any(|l| l.ticker == ticker && l.day == d2 && l.kind == Kind::Buy);
                if has_buy2 {
                    let c2 = claimed.get(&d2).copied().unwrap_or(zero);
                    let avail = day2.bought - day2.sold.min(day2.bought) - c2; // day-d2 units
                    if avail > zero {
                        let avail_sell_units = avail / rho;
                        let m = rem.min(avail_sell_units);
                        let m_buy_units = m * rho;
                        let cost = m_buy_units * (day2.buy_cost / day2.bought);
                        res.legs.push(Leg { ticker: ticker.to_string(), sell_day: dd, rule: Rule::Bnb, acq_day: Some(d2), qty: m, cost });
                        rem = rem - m;
                        claimed.insert(d2, c2 + m_buy_units);
                    }
                }
                if let Some(r) = day2.ratio {
                    rho = rho * r; // a split on d2 lies between the disposal and any later acquisition
                }
            }
            // s104: the remainder comes out of the pool at average cost
            if rem > zero {
                if rem > pool_q {
                    res.uncovered = Some((ticker.to_string(), dd));
                    return;
                }
                let cost = rem * (pool_c / pool_q);
                res.legs.push(Leg { ticker: ticker.to_string(), sell_day: dd, rule: Rule::Pool, acq_day: None, qty: rem, cost });
                pool_q = pool_q - rem;
                pool_c = pool_c - cost;
            }
        }
        // the day's acquisitions not identified with a disposal join the pool
        if has_buy {
            let c = claimed.get(&dd).copied().unwrap_or(zero);
            let add = day.bought - same_day - c;
            if add > zero {
                pool_q = pool_q + add;
                pool_c = pool_c + add * (day.buy_cost / day.bought);
            }
        }
        if let Some(r) = day.ratio {
            pool_q = pool_q * r;
        }
    }
    res.pools.insert(ticker.to_string(), (pool_q, pool_c));
}

/// Coverage: for every security and every date, shares acquired up to and including that date
/// (rescaled by later splits up to that date) cover the shares sold up to and including it.
/// Returns, per (ticker, day with a SELL), the running holding after that day's trades (must be >= 0).
pub fn holdings_after_each_sale_day(lines: &[Line]) -> Vec<(String, i64, Decimal)> {
    let mut out = Vec::new();
    for t in tickers(lines) {
        let days = days_of(lines, &t);
        let mut h = Decimal::ZERO;
        for (&dd, day) in &days {
            h = h + day.bought - day.sold;
            let has_sell = lines.iter().any(|l| l.ticker == t && l.day == dd && l.kind == Kind::Sell);
            if has_sell {
                out.push((t.clone(), dd, h));
            }
            if let Some(r) = day.ratio {
                h = h * r;
            }
        }
    }
    out
}

/// Closing holding per ticker by the conservation law (C02c).
pub fn closing_holdings(lines: &[Line]) -> BTreeMap<String, Decimal> {
    let mut m = BTreeMap::new();
    for t in tickers(lines) {
        let days = days_of(lines, &t);
        let mut h = Decimal::ZERO;
        for day in days.values() {
            h = h + day.bought - day.sold;
            if let Some(r) = day.ratio {
                h = h * r;
            }
        }
        m.insert(t, h);
    }
    m
}

/// Product of the split ratios of `ticker` on days t with from <= t < to (units of day `to` per unit of day `from`).
pub fn ratio_between(lines: &[Line], ticker: &str, from: i64, to: i64) -> Decimal {
    let mut r = Decimal::ONE;
    let mut ls: Vec<&Line> = lines.iter().filter(|l| l.ticker == ticker && l.day >= from && l.day < to).collect();
    ls.sort_by_key(|l| l.day);
    for l in ls {
        match l.kind {
            Kind::Split => r = r * l.q,
            Kind::Unsplit => r = r / l.q,
            _ => {}
        }
    }
    r
}
