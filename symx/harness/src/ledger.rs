//! Skeletons (the enumerated, concrete structure of a ledger) and their instantiation with
//! symbolic / replayed numeric fields.

use crate::vx;
use cgt_core::{Currency, CurrencyAmount, Operation, Transaction};
use chrono::NaiveDate;
use rust_decimal::Decimal;
use serde_json::Value;

#[derive(Clone, Copy, Debug, PartialEq, Eq, PartialOrd, Ord)]
pub enum Kind {
    Buy,
    Sell,
    Split,
    Unsplit,
    CapReturn,
    Accum,
    Dividend,
}

impl Kind {
    pub fn parse(s: &str) -> Kind {
        match s {
            "B" => Kind::Buy,
            "S" => Kind::Sell,
            "X" => Kind::Split,
            "U" => Kind::Unsplit,
            "C" => Kind::CapReturn,
            "M" => Kind::Accum,
            "D" => Kind::Dividend,
            o => panic!("unknown kind {o}"),
        }
    }
    pub fn letter(&self) -> &'static str {
        match self {
            Kind::Buy => "B",
            Kind::Sell => "S",
            Kind::Split => "X",
            Kind::Unsplit => "U",
            Kind::CapReturn => "C",
            Kind::Accum => "M",
            Kind::Dividend => "D",
        }
    }
}

/// One line of a ledger. `q`,`p`,`f` are the numeric fields in GBP:
///   BUY/SELL: quantity, unit price, fees;  CAPRETURN: quantity, total value, fees;
///   ACCUMULATION: quantity, total value, tax;  DIVIDEND: -, total value, tax;  SPLIT/UNSPLIT: ratio in `q`.
#[derive(Clone, Debug)]
pub struct Line {
    pub idx: usize,
    pub kind: Kind,
    pub ticker: String,
    pub day: i64,
    pub date: NaiveDate,
    pub q: Decimal,
    pub p: Decimal,
    pub f: Decimal,
    pub cur_p: Currency,
    pub cur_f: Currency,
}

#[derive(Clone, Debug)]
pub struct Skeleton {
    pub id: String,
    pub base: NaiveDate,
    pub raw: Value,
}

impl Skeleton {
    pub fn parse(v: &Value) -> Skeleton {
        let base = v["base"].as_str().unwrap_or("2024-01-10");
        Skeleton {
            id: v["id"].as_str().map(|s| s.to_string()).unwrap_or_else(|| v["id"].to_string()),
            base: NaiveDate::parse_from_str(base, "%Y-%m-%d").expect("base date"),
            raw: v.clone(),
        }
    }
    pub fn opt_str(&self, k: &str) -> Option<String> {
        self.raw["opts"].get(k).and_then(|x| x.as_str()).map(|s| s.to_string())
    }
    pub fn opt_i64(&self, k: &str) -> Option<i64> {
        self.raw["opts"].get(k).and_then(|x| x.as_i64())
    }
    pub fn date(&self, day: i64) -> NaiveDate {
        self.base + chrono::Duration::days(day)
    }
}

pub fn parse_ratio(s: &str) -> Decimal {
    if let Some((n, d)) = s.split_once('/') {
        Decimal::from(n.parse::<i64>().expect("ratio")) / Decimal::from(d.parse::<i64>().expect("ratio"))
    } else {
        Decimal::from(s.parse::<i64>().expect("ratio"))
    }
}

/// Which numeric fields are symbolic: mode string containing Q (quantities), P (prices/values), F (fees/tax), R (ratios).
pub struct Mode {
    pub q: bool,
    pub p: bool,
    pub f: bool,
    pub r: bool,
    /// no sign assumptions at all (C15 hostile family)
    pub hostile: bool,
    /// quantities and ratios without sign assumptions, money fields still >= 0
    pub hostile_q: bool,
}
impl Mode {
    pub fn parse(s: &str) -> Mode {
        Mode { q: s.contains('Q'), p: s.contains('P'), f: s.contains('F'), r: s.contains('R'), hostile: s.contains('H'), hostile_q: s.contains('Z') }
    }
}

/// Instantiate the lines of a skeleton. Every numeric field is a fresh symbolic input (or a small distinct
/// constant when its class is switched off in `mode`), constrained only by the documented validity predicate.
pub fn instantiate(sk: &Skeleton, key: &str, mode: &Mode) -> Vec<Line> {
    let zero = Decimal::ZERO;
    let mut out = Vec::new();
    let lines = sk.raw[key].as_array().cloned().unwrap_or_default();
    for (i, l) in lines.iter().enumerate() {
        let kind = Kind::parse(l[0].as_str().expect("kind"));
        let ticker = l[1].as_str().expect("ticker").to_string();
        let day = l[2].as_i64().expect("day");
        // optional 4th element: ratio "2" | "5/2" | "sym"; optional 5th: variable-name suffix (stable names across variants)
        let name = l.get(4).and_then(|x| x.as_str()).map(|s| s.to_string()).unwrap_or_else(|| i.to_string());
        let cur_p = l.get(5).and_then(|x| x.as_str()).map(cur).unwrap_or(Currency::GBP);
        let cur_f = l.get(6).and_then(|x| x.as_str()).map(cur).unwrap_or(Currency::GBP);
        let mk = |on: bool, pre: &str, dflt: Decimal, strict: bool| -> Decimal {
            if on {
                let v = vx::fresh(&format!("{pre}{name}"));
                if !(mode.hostile || (mode.hostile_q && strict)) {
                    if strict {
                        vx::assume(&vx::gt(v, zero));
                    } else {
                        vx::assume(&vx::ge(v, zero));
                    }
                }
                v
            } else {
                dflt
            }
        };
        let k = i as i64;
        // option fracq: concrete quantities with many decimals (fractional shares), still purchases of 100+ and sales of 10+
        let frac = if sk.opt_i64("fracq").unwrap_or(0) == 1 { Decimal::new(if kind == Kind::Buy { 123456 + 1000 * k } else { 62500 + 7 * k }, 6) } else { zero };
        let (q, p, f) = match kind {
            Kind::Buy | Kind::Sell => (
                // concrete defaults keep ledgers covered: purchases of 100+, sales of 10+
                mk(mode.q, "q", Decimal::from(if kind == Kind::Buy { 100 + 3 * k } else { 10 + 3 * k }) + frac, true),
                mk(mode.p, "p", Decimal::from(2 + k), false),
                mk(mode.f, "f", Decimal::from(1 + (k % 3)), false),
            ),
            Kind::CapReturn | Kind::Accum => (
                mk(mode.q, "q", Decimal::from(10 + 3 * k), true),
                mk(mode.p, "p", Decimal::from(5 + k), false),
                mk(mode.f, "f", Decimal::from(1), false),
            ),
            Kind::Dividend => (zero, mk(mode.p, "p", Decimal::from(7 + k), false), mk(mode.f, "f", Decimal::from(1), false)),
            Kind::Split | Kind::Unsplit => {
                let r = l.get(3).and_then(|x| x.as_str()).unwrap_or("2");
                let q = if r == "sym" { mk(true, "r", Decimal::from(2), true) } else { parse_ratio(r) };
                (q, zero, zero)
            }
        };
        out.push(Line { idx: i, kind, ticker, day, date: sk.date(day), q, p, f, cur_p, cur_f });
    }
    out
}

fn cur(s: &str) -> Currency {
    Currency::from_code(s).unwrap_or_else(|| panic!("currency {s} unknown to iso_currency"))
}

pub fn ca(amount: Decimal, c: Currency) -> CurrencyAmount {
    CurrencyAmount::new(amount, c)
}

pub fn to_transaction(l: &Line) -> Transaction {
    let op = match l.kind {
        Kind::Buy => Operation::Buy { amount: l.q, price: ca(l.p, l.cur_p), fees: ca(l.f, l.cur_f) },
        Kind::Sell => Operation::Sell { amount: l.q, price: ca(l.p, l.cur_p), fees: ca(l.f, l.cur_f) },
        Kind::Split => Operation::Split { ratio: l.q },
        Kind::Unsplit => Operation::Unsplit { ratio: l.q },
        Kind::CapReturn => Operation::CapReturn { amount: l.q, total_value: ca(l.p, l.cur_p), fees: ca(l.f, l.cur_f) },
        Kind::Accum => Operation::Accumulation { amount: l.q, total_value: ca(l.p, l.cur_p), tax_paid: ca(l.f, l.cur_f) },
        Kind::Dividend => Operation::Dividend { total_value: ca(l.p, l.cur_p), tax_paid: ca(l.f, l.cur_f) },
    };
    Transaction { date: l.date, ticker: l.ticker.clone(), operation: op }
}

pub fn to_transactions(lines: &[Line]) -> Vec<Transaction> {
    lines.iter().map(to_transaction).collect()
}

/// Canonical DSL-ish rendering of a skeleton instance for samples / replay files (values shown as given).
pub fn describe(lines: &[Line]) -> Vec<String> {
    lines
        .iter()
        .map(|l| match l.kind {
            Kind::Buy | Kind::Sell => format!(
                "{} {} {} {} @ {} FEES {}",
                l.date,
                if l.kind == Kind::Buy { "BUY" } else { "SELL" },
                l.ticker,
                vx::show(l.q),
                vx::show(l.p),
                vx::show(l.f)
            ),
            Kind::Split => format!("{} SPLIT {} RATIO {}", l.date, l.ticker, vx::show(l.q)),
            Kind::Unsplit => format!("{} UNSPLIT {} RATIO {}", l.date, l.ticker, vx::show(l.q)),
            Kind::CapReturn => {
                format!("{} CAPRETURN {} {} TOTAL {} FEES {}", l.date, l.ticker, vx::show(l.q), vx::show(l.p), vx::show(l.f))
            }
            Kind::Accum => {
                format!("{} ACCUMULATION {} {} TOTAL {} TAX {}", l.date, l.ticker, vx::show(l.q), vx::show(l.p), vx::show(l.f))
            }
            Kind::Dividend => format!("{} DIVIDEND {} TOTAL {} TAX {}", l.date, l.ticker, vx::show(l.p), vx::show(l.f)),
        })
        .collect()
}
