//! `vx`: the small verification API the property evaluators are written against.
//! Two implementations behind one interface:
//!   feature `symx` — values are z3 terms (via the rust_decimal shim), `prove` asks the solver;
//!   feature `real` — values are concrete `rust_decimal::Decimal`s read from a replay record,
//!                    `prove` evaluates (equalities to a tolerance of 1e-12 relative).
//! The same evaluator source therefore serves the symbolic run and the concrete replay.

use rust_decimal::Decimal;

#[derive(Clone, Debug)]
pub enum V {
    Proved,
    Refuted(Vec<(String, String)>),
    Unknown(String),
}

#[cfg(feature = "symx")]
mod imp {
    use super::V;
    use rust_decimal::sym;
    use rust_decimal::Decimal;
    use z3::ast::{Ast, Bool};

    #[derive(Clone)]
    pub struct B(pub Bool);

    pub const SYMBOLIC: bool = true;
    pub fn set_values(_v: &serde_json::Value) {}
    pub fn fresh(name: &str) -> Decimal {
        sym::fresh(name)
    }
    pub fn tt() -> B {
        B(Bool::from_bool(true))
    }
    pub fn ff() -> B {
        B(Bool::from_bool(false))
    }
    pub fn eq_l(_l: &str, a: Decimal, b: Decimal) -> B {
        B(sym::term(a).eq(&sym::term(b)))
    }
    /// |a-b| <= tol
    pub fn near_l(_l: &str, a: Decimal, b: Decimal, tol: Decimal) -> B {
        let d = sym::term(a) - sym::term(b);
        let t = sym::term(tol);
        B(Bool::and(&[&d.le(&t), &d.ge(&t.unary_minus())]))
    }
    pub fn le_l(_l: &str, a: Decimal, b: Decimal) -> B {
        B(sym::term(a).le(&sym::term(b)))
    }
    pub fn lt_l(_l: &str, a: Decimal, b: Decimal) -> B {
        B(sym::term(a).lt(&sym::term(b)))
    }
    pub fn and(v: &[B]) -> B {
        let r: Vec<&Bool> = v.iter().map(|b| &b.0).collect();
        B(Bool::and(&r))
    }
    pub fn or(v: &[B]) -> B {
        let r: Vec<&Bool> = v.iter().map(|b| &b.0).collect();
        B(Bool::or(&r))
    }
    pub fn not(b: &B) -> B {
        B(b.0.not())
    }
    pub fn implies(a: &B, b: &B) -> B {
        B(a.0.implies(&b.0))
    }
    pub fn lit(b: bool, _l: &str) -> B {
        B(Bool::from_bool(b))
    }
    pub fn assume(b: &B) {
        sym::assume(&b.0);
    }
    pub fn prove(b: &B) -> V {
        match sym::prove(&b.0) {
            sym::Verdict::Proved => V::Proved,
            sym::Verdict::Refuted(m) => V::Refuted(m),
            sym::Verdict::Unknown(r) => V::Unknown(r),
        }
    }
    pub fn take_failed_atoms() -> Vec<String> {
        vec![]
    }
    pub fn assumption_violated() -> bool {
        false
    }
    pub fn witness() -> Option<Vec<(String, String)>> {
        sym::witness()
    }
    pub fn witness_with(extra: &[B]) -> Option<Vec<(String, String)>> {
        let v: Vec<Bool> = extra.iter().map(|b| b.0.clone()).collect();
        sym::witness_with(&v)
    }
    pub fn trail() -> String {
        sym::trail()
    }
    pub fn choose(n: usize) -> usize {
        sym::choose(n)
    }
    pub fn set_choices(_v: &serde_json::Value) {}
    pub fn pc() -> Vec<String> {
        sym::pc_strings()
    }
    pub fn is_symbolic(d: Decimal) -> bool {
        sym::is_symbolic(d)
    }
    /// value of a term under no model: only constants
    pub fn show(d: Decimal) -> String {
        match sym::const_str(d) {
            Some(s) => s,
            None => format!("{}", sym::term(d)).split_whitespace().collect::<Vec<_>>().join(" "),
        }
    }
}

#[cfg(feature = "real")]
mod imp {
    use super::V;
    use rust_decimal::Decimal;
    use std::cell::RefCell;
    use std::collections::HashMap;
    use std::str::FromStr;

    #[derive(Clone)]
    pub struct B(pub bool);

    pub const SYMBOLIC: bool = false;
    thread_local! {
        static VALUES: RefCell<HashMap<String, Decimal>> = RefCell::new(HashMap::new());
        static FAILED: RefCell<Vec<String>> = const { RefCell::new(Vec::new()) };
        static ASSUME_BAD: RefCell<bool> = const { RefCell::new(false) };
    }
    pub fn parse_value(s: &str) -> Option<Decimal> {
        if let Some((n, d)) = s.split_once('/') {
            let n = Decimal::from_str(n.trim()).ok()?;
            let d = Decimal::from_str(d.trim()).ok()?;
            n.checked_div(d)
        } else {
            Decimal::from_str(s.trim()).ok()
        }
    }
    pub fn set_values(v: &serde_json::Value) {
        ASSUME_BAD.with(|a| *a.borrow_mut() = false);
        VALUES.with(|m| {
            let mut m = m.borrow_mut();
            m.clear();
            if let Some(o) = v.as_object() {
                for (k, x) in o {
                    if let Some(s) = x.as_str() {
                        match parse_value(s) {
                            Some(d) => {
                                m.insert(k.clone(), d);
                            }
                            // a value the real Decimal cannot hold: the record is outside the replayable domain
                            None => ASSUME_BAD.with(|a| *a.borrow_mut() = true),
                        }
                    }
                }
            }
        });
        FAILED.with(|f| f.borrow_mut().clear());
    }
    pub fn fresh(name: &str) -> Decimal {
        VALUES.with(|m| match m.borrow().get(name) {
            Some(d) => *d,
            None => {
                ASSUME_BAD.with(|a| *a.borrow_mut() = true);
                Decimal::ONE
            }
        })
    }
    fn note(ok: bool, l: &str, a: Decimal, b: Decimal) -> B {
        if !ok {
            FAILED.with(|f| f.borrow_mut().push(format!("{l}: {a} vs {b}")));
        }
        B(ok)
    }
    pub fn tt() -> B {
        B(true)
    }
    pub fn ff() -> B {
        B(false)
    }
    fn tol(a: Decimal, b: Decimal) -> Decimal {
        let m = a.abs().max(b.abs()).max(Decimal::ONE);
        m * Decimal::new(1, 12)
    }
    pub fn eq_l(l: &str, a: Decimal, b: Decimal) -> B {
        note((a - b).abs() <= tol(a, b), l, a, b)
    }
    pub fn near_l(l: &str, a: Decimal, b: Decimal, t: Decimal) -> B {
        note((a - b).abs() <= t + tol(a, b), l, a, b)
    }
    pub fn le_l(l: &str, a: Decimal, b: Decimal) -> B {
        note(a <= b + tol(a, b), l, a, b)
    }
    pub fn lt_l(l: &str, a: Decimal, b: Decimal) -> B {
        note(a < b, l, a, b)
    }
    pub fn and(v: &[B]) -> B {
        B(v.iter().all(|b| b.0))
    }
    pub fn or(v: &[B]) -> B {
        B(v.iter().any(|b| b.0))
    }
    pub fn not(b: &B) -> B {
        B(!b.0)
    }
    pub fn implies(a: &B, b: &B) -> B {
        B(!a.0 || b.0)
    }
    pub fn lit(b: bool, l: &str) -> B {
        if !b {
            FAILED.with(|f| f.borrow_mut().push(l.to_string()));
        }
        B(b)
    }
    pub fn assume(b: &B) {
        if !b.0 {
            ASSUME_BAD.with(|a| *a.borrow_mut() = true);
        }
    }
    pub fn prove(b: &B) -> V {
        if b.0 { V::Proved } else { V::Refuted(vec![]) }
    }
    pub fn take_failed_atoms() -> Vec<String> {
        FAILED.with(|f| std::mem::take(&mut *f.borrow_mut()))
    }
    pub fn assumption_violated() -> bool {
        ASSUME_BAD.with(|a| *a.borrow())
    }
    pub fn witness() -> Option<Vec<(String, String)>> {
        None
    }
    pub fn witness_with(_extra: &[B]) -> Option<Vec<(String, String)>> {
        None
    }
    pub fn trail() -> String {
        String::new()
    }
    thread_local! {
        static CHOICES: RefCell<Vec<usize>> = const { RefCell::new(Vec::new()) };
    }
    /// replay: the recorded choice sequence of the leaf (opts.choices), consumed in order
    pub fn set_choices(v: &serde_json::Value) {
        CHOICES.with(|c| {
            let mut c = c.borrow_mut();
            c.clear();
            if let Some(a) = v.as_array() {
                for x in a.iter().rev() {
                    c.push(x.as_u64().unwrap_or(0) as usize);
                }
            }
        });
    }
    pub fn choose(n: usize) -> usize {
        CHOICES.with(|c| c.borrow_mut().pop().unwrap_or(0)).min(n.saturating_sub(1))
    }
    pub fn pc() -> Vec<String> {
        vec![]
    }
    pub fn is_symbolic(_d: Decimal) -> bool {
        false
    }
    pub fn show(d: Decimal) -> String {
        d.to_string()
    }
}

pub use imp::*;

pub fn eq(a: Decimal, b: Decimal) -> B {
    eq_l("eq", a, b)
}
pub fn le(a: Decimal, b: Decimal) -> B {
    le_l("le", a, b)
}
pub fn lt(a: Decimal, b: Decimal) -> B {
    lt_l("lt", a, b)
}
pub fn ge(a: Decimal, b: Decimal) -> B {
    le_l("ge", b, a)
}
pub fn gt(a: Decimal, b: Decimal) -> B {
    lt_l("gt", b, a)
}
pub fn dec(n: i64) -> Decimal {
    Decimal::from(n)
}
pub fn frac(n: i64, d: i64) -> Decimal {
    Decimal::from(n) / Decimal::from(d)
}
