//! SYMX harness / replay binary (one source, two builds — see vx.rs).
//!
//!   symx   run <property> <skeletons.jsonl> <out.jsonl>     symbolic exploration, one forked tree per skeleton
//!   replay run <property> <records.jsonl>   <out.jsonl>     concrete re-evaluation (records carry "values")

mod ledger;
#[cfg(feature = "mcp")]
#[allow(dead_code, unused_imports, clippy::all)]
pub mod mcpgen {
    include!(concat!(env!("OUT_DIR"), "/mcp_gen.rs"));
}
mod props;
mod spec;
mod vx;

use serde_json::{Value, json};
use std::io::{BufRead, Write};

pub struct Out {
    file: std::fs::File,
}
impl Out {
    pub fn write(&mut self, v: &Value) {
        let mut s = v.to_string();
        s.push('\n');
        // one write() per record: O_APPEND keeps concurrent leaf processes from interleaving
        let _ = self.file.write_all(s.as_bytes());
    }
}

#[derive(Default)]
pub struct Leaf {
    pub outcome: String,
    pub msg: String,
    pub obs: Vec<Value>,
    pub sig: Value,
    pub extra: Value,
}

impl Leaf {
    /// Prove one obligation and record the verdict.
    pub fn ob(&mut self, name: &str, b: &vx::B) -> bool {
        let v = vx::prove(b);
        let (code, model, why) = match &v {
            vx::V::Proved => ("P", Value::Null, String::new()),
            vx::V::Refuted(m) => {
                let mut o = serde_json::Map::new();
                for (k, x) in m {
                    o.insert(k.clone(), Value::String(x.clone()));
                }
                ("R", Value::Object(o), String::new())
            }
            vx::V::Unknown(r) => ("U", Value::Null, r.clone()),
        };
        let failed = vx::take_failed_atoms();
        self.obs.push(json!({"n": name, "v": code, "m": model, "why": why, "atoms": failed, "ab": vx::assumption_violated()}));
        matches!(v, vx::V::Proved)
    }
    /// Record a structural (non-numeric) obligation decided by the harness itself.
    pub fn ob_bool(&mut self, name: &str, ok: bool, detail: &str) -> bool {
        let model = if ok {
            Value::Null
        } else {
            // a structural failure holds for every value on this path: any witness of the path is a counterexample
            match vx::witness() {
                Some(m) => {
                    let mut o = serde_json::Map::new();
                    for (k, x) in m {
                        o.insert(k, Value::String(x));
                    }
                    Value::Object(o)
                }
                None => Value::Null,
            }
        };
        self.obs.push(json!({"n": name, "v": if ok {"P"} else {"R"}, "m": model, "why": detail, "atoms": [], "ab": vx::assumption_violated()}));
        ok
    }
}

fn main() {
    let args: Vec<String> = std::env::args().collect();
    if args.len() < 5 || args[1] != "run" {
        eprintln!("usage: {} run <property> <skeletons.jsonl> <out.jsonl>", args[0]);
        std::process::exit(2);
    }
    let prop = args[2].clone();
    let input = std::fs::File::open(&args[3]).expect("skeleton file");
    let file = std::fs::OpenOptions::new().create(true).append(true).open(&args[4]).expect("out file");
    let mut out = Out { file };
    // silence the default panic message: panics of the code under test are caught and recorded
    if std::env::var_os("SYMX_LOUD").is_none() {
        std::panic::set_hook(Box::new(|_| {}));
    }
    for line in std::io::BufReader::new(input).lines() {
        let line = line.expect("read");
        if line.trim().is_empty() {
            continue;
        }
        let v: Value = serde_json::from_str(&line).expect("skeleton json");
        let sk = ledger::Skeleton::parse(&v);
        run_one(&prop, &sk, &mut out);
    }
}

fn leaf_record(prop: &str, sk: &ledger::Skeleton, leaf: &Leaf) -> Value {
    json!({
        "t": "leaf", "prop": prop, "sk": sk.id, "trail": vx::trail(), "outcome": leaf.outcome, "msg": leaf.msg,
        "obs": leaf.obs, "sig": leaf.sig, "extra": leaf.extra,
        "assume_bad": vx::assumption_violated(),
    })
}

#[cfg(feature = "symx")]
fn run_one(prop: &str, sk: &ledger::Skeleton, out: &mut Out) {
    use rust_decimal::sym;
    use std::sync::atomic::Ordering::SeqCst;
    sym::reset_counters();
    let t0 = std::time::Instant::now();
    let status = sym::in_child(|| {
        let res = std::panic::catch_unwind(std::panic::AssertUnwindSafe(|| props::run(prop, sk)));
        let leaf = match res {
            Ok(l) => l,
            Err(e) => {
                let msg = e.downcast_ref::<String>().cloned().or_else(|| e.downcast_ref::<&str>().map(|s| s.to_string())).unwrap_or_default();
                let mut l = Leaf { outcome: "panic".into(), msg, ..Default::default() };
                props::on_panic(prop, sk, &mut l);
                l
            }
        };
        let mut rec = leaf_record(prop, sk, &leaf);
        if sk.opt_i64("pc").unwrap_or(0) == 1 {
            rec["pc"] = json!(vx::pc());
        }
        // path witness: concrete inputs satisfying this leaf's path condition, replayed by the driver on the
        // build with the real rust_decimal; the outcome signature must coincide
        let k = sk.opt_i64("wit").unwrap_or(0);
        if k > 0 {
            let tr = vx::trail();
            let h = tr.bytes().fold(1469598103934665603u64, |a, b| (a ^ b as u64).wrapping_mul(1099511628211));
            if h % (k as u64) == 0 {
                if let Some(w) = vx::witness() {
                    let mut o = serde_json::Map::new();
                    for (n, v) in w {
                        o.insert(n, Value::String(v));
                    }
                    rec["witness"] = Value::Object(o);
                }
            }
        }
        out.write(&rec);
        sym::leaf_exit();
    });
    let s = sym::shared();
    out.write(&json!({
        "t": "sum", "prop": prop, "sk": sk.id, "status": status,
        "leaves": s.leaves.load(SeqCst), "forks": s.forks.load(SeqCst), "checks": s.checks.load(SeqCst),
        "solver_us": s.solver_us.load(SeqCst), "decisions": s.decisions.load(SeqCst),
        "unknown_branch": s.unknown_branch.load(SeqCst), "proves": s.proves.load(SeqCst),
        "prove_us": s.prove_us.load(SeqCst), "capped": s.capped.load(SeqCst), "child_fail": s.child_fail.load(SeqCst), "watchdog": s.watchdog.load(SeqCst),
        "wall_ms": t0.elapsed().as_millis() as u64,
    }));
}

#[cfg(feature = "real")]
fn run_one(prop: &str, sk: &ledger::Skeleton, out: &mut Out) {
    vx::set_values(&sk.raw["values"]);
    let res = std::panic::catch_unwind(std::panic::AssertUnwindSafe(|| props::run(prop, sk)));
    let leaf = match res {
        Ok(l) => l,
        Err(e) => {
            let msg = e.downcast_ref::<String>().cloned().or_else(|| e.downcast_ref::<&str>().map(|s| s.to_string())).unwrap_or_default();
            let mut l = Leaf { outcome: "panic".into(), msg, ..Default::default() };
            props::on_panic(prop, sk, &mut l);
            l
        }
    };
    out.write(&leaf_record(prop, sk, &leaf));
}
