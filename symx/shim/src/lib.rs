//! SYMX shim: a stand-in for the `rust_decimal` crate used ONLY by the verification
//! harness in /verif (see DESIGN.md §1.1). It is substituted for the real crate through
//! `[patch.crates-io]`, so the unmodified sources of /repo/crates/* are compiled against it.
//!
//! `Decimal` is a `Copy` handle into a thread-local arena whose entries are either an
//! exact rational constant or a z3 `Real` term.  Arithmetic builds terms; comparisons whose
//! outcome is not determined by the path condition `fork()` the process, so every leaf
//! process is one complete execution of the real code under one path condition.
//!
//! Not modelled: rust_decimal's 96-bit mantissa / 28-digit rounding of products and
//! quotients (values are exact reals), scale (trailing zeros) of constants.

use num_bigint::BigInt;
use num_integer::Integer;
use num_traits::{One, Signed, ToPrimitive as NtToPrimitive, Zero};
use std::cell::RefCell;
use std::cmp::Ordering;
use std::collections::HashMap;
use std::fmt;
use std::ops::*;
use std::str::FromStr;
use std::sync::atomic::{AtomicU64, Ordering as AO};
use z3::ast::{Ast, Bool, Int, Real};
use z3::{Model, Params, SatResult, Solver};

// ---------------------------------------------------------------- rationals
#[derive(Clone, Debug, PartialEq, Eq)]
pub struct Q {
    n: BigInt,
    d: BigInt,
}
impl Q {
    fn new(n: BigInt, d: BigInt) -> Q {
        assert!(!d.is_zero(), "SYMX: zero denominator in constant");
        let g = n.gcd(&d);
        let (mut n, mut d) = if g.is_zero() { (n, d) } else { (&n / &g, &d / &g) };
        if d.is_negative() {
            n = -n;
            d = -d;
        }
        Q { n, d }
    }
    fn int(i: i128) -> Q {
        Q { n: BigInt::from(i), d: BigInt::one() }
    }
    fn cmp(&self, o: &Q) -> Ordering {
        (&self.n * &o.d).cmp(&(&o.n * &self.d))
    }
    fn add(&self, o: &Q) -> Q {
        Q::new(&self.n * &o.d + &o.n * &self.d, &self.d * &o.d)
    }
    fn sub(&self, o: &Q) -> Q {
        Q::new(&self.n * &o.d - &o.n * &self.d, &self.d * &o.d)
    }
    fn mul(&self, o: &Q) -> Q {
        Q::new(&self.n * &o.n, &self.d * &o.d)
    }
    fn div(&self, o: &Q) -> Q {
        Q::new(&self.n * &o.d, &self.d * &o.n)
    }
    fn neg(&self) -> Q {
        Q { n: -&self.n, d: self.d.clone() }
    }
    fn abs(&self) -> Q {
        Q { n: self.n.abs(), d: self.d.clone() }
    }
    fn floor(&self) -> BigInt {
        self.n.div_floor(&self.d)
    }
    fn pow10(k: u32) -> BigInt {
        num_traits::pow(BigInt::from(10), k as usize)
    }
    /// decimal rendering; `prec` = Some(p): exactly p fractional digits, truncated (as rust_decimal's Display)
    fn to_decimal_string(&self, prec: Option<usize>) -> String {
        let neg = self.n.is_negative();
        let n = self.n.abs();
        let ip = &n / &self.d;
        let mut rem = &n % &self.d;
        let mut frac = String::new();
        let maxd = prec.unwrap_or(28);
        while frac.len() < maxd && (prec.is_some() || !rem.is_zero()) {
            rem *= 10;
            let dgt = &rem / &self.d;
            rem = &rem % &self.d;
            frac.push_str(&dgt.to_string());
        }
        let mut s = String::new();
        if neg && (!ip.is_zero() || frac.bytes().any(|b| b != b'0')) {
            s.push('-');
        }
        s.push_str(&ip.to_string());
        if !frac.is_empty() {
            s.push('.');
            s.push_str(&frac);
        }
        s
    }
}

#[derive(Clone)]
enum Val {
    C(Q),
    S(Real),
}

#[derive(Clone, Copy)]
pub struct Decimal {
    id: u32,
}

// ---------------------------------------------------------------- shared counters (survive fork)
#[repr(C)]
pub struct Shared {
    pub leaves: AtomicU64,
    pub forks: AtomicU64,
    pub checks: AtomicU64,
    pub solver_us: AtomicU64,
    pub decisions: AtomicU64,
    pub unknown_branch: AtomicU64,
    pub proves: AtomicU64,
    pub prove_us: AtomicU64,
    pub max_leaves: AtomicU64,
    pub capped: AtomicU64,
    pub child_fail: AtomicU64,
    /// paths abandoned because a solver call ignored its own time limit (see `watchdog`)
    pub watchdog: AtomicU64,
    /// CLOCK_MONOTONIC seconds after which the remaining paths of the current skeleton are given up (counted in `capped`)
    pub deadline_s: AtomicU64,
}

fn mono_s() -> u64 {
    let mut ts = libc::timespec { tv_sec: 0, tv_nsec: 0 };
    unsafe { libc::clock_gettime(libc::CLOCK_MONOTONIC, &mut ts) };
    ts.tv_sec as u64
}

/// ends the path (counted as capped) once the skeleton's time budget SYMX_SKELETON_S is used up
fn enforce_deadline(shr: &Shared) {
    let d = shr.deadline_s.load(AO::SeqCst);
    if d != 0 && mono_s() > d {
        shr.capped.fetch_add(1, AO::SeqCst);
        unsafe { libc::_exit(0) }
    }
}

static WD_SHARED: std::sync::atomic::AtomicPtr<Shared> = std::sync::atomic::AtomicPtr::new(std::ptr::null_mut());

/// z3's time limit is polled cooperatively and some arithmetic loops (monomial patching over huge rationals) never poll:
/// SIGALRM ends such a path; it is counted and reported as not explored.
extern "C" fn on_alarm(_: libc::c_int) {
    let p = WD_SHARED.load(AO::SeqCst);
    if !p.is_null() {
        unsafe {
            (*p).watchdog.fetch_add(1, AO::SeqCst);
            (*p).unknown_branch.fetch_add(1, AO::SeqCst);
        }
    }
    unsafe { libc::_exit(0) }
}

fn watchdog(secs: u32) {
    unsafe { libc::alarm(secs) };
}

struct St {
    arena: Vec<Val>,
    /// for symbolic entries: Some(k) when the value is known to be a multiple of 10^-k (result of a rounding to k places, its negation or absolute value)
    known_dp: HashMap<u32, u32>,
    solver: Solver,
    pc: Vec<Bool>,
    names: Vec<(String, u32)>,
    cache: HashMap<Bool, bool>,
    model: Option<Model>,
    trail: String,
    overflow_check: bool,
    decide_ms: u32,
    prove_ms: u32,
    shared: *mut Shared,
    int_vars: Vec<Int>,
    n_abstract: u32,
    round_memo: HashMap<(Real, u32, bool), Real>,
}

thread_local! {
    static ST: RefCell<Option<St>> = const { RefCell::new(None) };
}

const N_RESERVED: usize = 9;
/// roundings to at least this many places are abstracted (see round_dp_with_strategy)
pub const ABSTRACT_ROUND_DP: u32 = 8;
fn reserved() -> Vec<Val> {
    let two96 = num_traits::pow(BigInt::from(2), 96);
    let max = &two96 - BigInt::one();
    vec![
        Val::C(Q::int(0)),
        Val::C(Q::int(1)),
        Val::C(Q::int(-1)),
        Val::C(Q::int(2)),
        Val::C(Q::int(10)),
        Val::C(Q::int(100)),
        Val::C(Q::int(1000)),
        Val::C(Q { n: max.clone(), d: BigInt::one() }),
        Val::C(Q { n: -max, d: BigInt::one() }),
    ]
}

fn env_u32(k: &str, dflt: u32) -> u32 {
    std::env::var(k).ok().and_then(|v| v.parse().ok()).unwrap_or(dflt)
}

fn new_solver(ms: u32) -> Solver {
    let s = Solver::new();
    let mut p = Params::new();
    p.set_u32("timeout", ms);
    s.set_params(&p);
    s
}

fn with<R>(f: impl FnOnce(&mut St) -> R) -> R {
    ST.with(|s| {
        let mut b = s.borrow_mut();
        if b.is_none() {
            let decide_ms = env_u32("SYMX_DECIDE_MS", 5000);
            let prove_ms = env_u32("SYMX_PROVE_MS", 20000);
            let shared = unsafe {
                let p = libc::mmap(
                    std::ptr::null_mut(),
                    4096,
                    libc::PROT_READ | libc::PROT_WRITE,
                    libc::MAP_SHARED | libc::MAP_ANONYMOUS,
                    -1,
                    0,
                );
                assert!(p != libc::MAP_FAILED, "mmap failed");
                p as *mut Shared
            };
            unsafe { (*shared).max_leaves.store(env_u32("SYMX_MAX_LEAVES", 20000) as u64, AO::SeqCst) };
            WD_SHARED.store(shared, AO::SeqCst);
            unsafe { libc::signal(libc::SIGALRM, on_alarm as extern "C" fn(libc::c_int) as usize) };
            *b = Some(St {
                arena: reserved(),
                known_dp: HashMap::new(),
                solver: new_solver(decide_ms),
                pc: vec![],
                names: vec![],
                cache: HashMap::new(),
                model: None,
                trail: String::new(),
                overflow_check: false,
                decide_ms,
                prove_ms,
                shared,
                int_vars: vec![],
                n_abstract: 0,
                round_memo: HashMap::new(),
            });
        }
        f(b.as_mut().unwrap())
    })
}

fn push(v: Val) -> Decimal {
    with(|s| {
        s.arena.push(v);
        Decimal { id: (s.arena.len() - 1) as u32 }
    })
}
fn get(d: Decimal) -> Val {
    with(|s| s.arena[d.id as usize].clone())
}
fn qreal(q: &Q) -> Real {
    Real::from_rational_str(&q.n.to_string(), &q.d.to_string()).expect("numeral")
}
fn real(v: &Val) -> Real {
    match v {
        Val::C(q) => qreal(q),
        Val::S(r) => r.clone(),
    }
}
fn mk_sym(r: Real) -> Decimal {
    push(Val::S(r))
}
fn dp_of(d: Decimal) -> Option<u32> {
    with(|s| s.known_dp.get(&d.id).copied())
}
fn with_dp(d: Decimal, dp: Option<u32>) -> Decimal {
    if let Some(k) = dp {
        with(|s| {
            s.known_dp.insert(d.id, k);
        });
    }
    d
}
fn sh() -> &'static Shared {
    with(|s| unsafe { &*s.shared })
}

/// Any operation that needs the concrete digits of a symbolic value ends the run: exit 2, never a pass.
fn concretisation(what: &str) -> ! {
    eprintln!("SYMX CONCRETISATION: {what} on a symbolic value");
    unsafe { libc::_exit(2) }
}

#[derive(Clone, Debug)]
pub enum Verdict {
    Proved,
    Refuted(Vec<(String, String)>),
    Unknown(String),
}

pub mod sym {
    use super::*;
    pub use super::{Shared, Verdict};

    pub fn fresh(name: &str) -> Decimal {
        let d = push(Val::S(Real::new_const(name)));
        with(|s| s.names.push((name.to_string(), d.id)));
        d
    }
    pub fn term(d: Decimal) -> Real {
        real(&get(d))
    }
    pub fn from_term(r: Real) -> Decimal {
        mk_sym(r)
    }
    pub fn is_symbolic(d: Decimal) -> bool {
        matches!(get(d), Val::S(_))
    }
    /// "n/d" of a constant
    pub fn const_str(d: Decimal) -> Option<String> {
        match get(d) {
            Val::C(q) => Some(format!("{}/{}", q.n, q.d)),
            _ => None,
        }
    }
    pub fn handle_id(d: Decimal) -> u32 {
        d.id
    }
    pub fn assume(b: &Bool) {
        with(|s| {
            s.solver.assert(b);
            s.pc.push(b.clone());
            s.model = None;
        });
    }
    pub fn decide(c: &Bool) -> bool {
        super::decide(c)
    }
    pub fn set_overflow_check(on: bool) {
        with(|s| s.overflow_check = on);
    }
    pub fn shared() -> &'static Shared {
        sh()
    }
    pub fn trail() -> String {
        with(|s| s.trail.clone())
    }
    pub fn pc_strings() -> Vec<String> {
        with(|s| s.pc.iter().map(|b| b.to_string().split_whitespace().collect::<Vec<_>>().join(" ")).collect())
    }
    pub fn names() -> Vec<String> {
        with(|s| s.names.iter().map(|x| x.0.clone()).collect())
    }

    fn model_values(s: &St, m: &Model) -> Vec<(String, String)> {
        s.names
            .iter()
            .map(|(n, id)| {
                let t = real(&s.arena[*id as usize]);
                let v = m.eval(&t, true).map(|v| v.to_string()).unwrap_or_else(|| "?".into());
                (n.clone(), v)
            })
            .collect()
    }

    /// Solve `extra` (may be empty) under the path condition, preferring values on the grid k/100.
    fn solve_nice(s: &mut St, extra: &[Bool]) -> Option<Vec<(String, String)>> {
        // prefer small values on a decimal grid (representable by the real Decimal and readable in replays)
        for (grid, bound) in [(100i64, 1000i64), (10000, 1_000_000), (1, 1_000_000_000_000), (0, 0)] {
            let f = new_solver(if grid == 0 && bound == 0 { s.prove_ms } else { 3000 });
            for a in &s.pc {
                f.assert(a);
            }
            for a in extra {
                f.assert(a);
            }
            if bound != 0 || grid == 0 {
                // never beyond what the real Decimal can hold (about 7.9e28): the last attempt is bounded by 7e28
                let b = if bound != 0 { Real::from_rational(bound, 1) } else { Real::from_rational_str("70000000000000000000000000000", "1").expect("numeral") };
                for (_, id) in s.names.iter() {
                    let t = real(&s.arena[*id as usize]);
                    f.assert(&t.le(&b));
                    f.assert(&t.ge(&b.unary_minus()));
                }
            }
            if grid != 0 {
                let g = Real::from_rational(grid, 1);
                for (i, (_, id)) in s.names.iter().enumerate() {
                    while s.int_vars.len() <= i {
                        let k = s.int_vars.len();
                        s.int_vars.push(Int::new_const(format!("symx!k{k}")));
                    }
                    let t = real(&s.arena[*id as usize]);
                    f.assert(&(&t * &g).eq(&Real::from_int(&s.int_vars[i])));
                }
            }
            unsafe { &*s.shared }.checks.fetch_add(1, AO::Relaxed);
            if f.check() == SatResult::Sat {
                if let Some(m) = f.get_model() {
                    return Some(model_values(s, &m));
                }
            }
        }
        None
    }

    /// Prove `b` under the path condition on a fresh, non-incremental solver.
    pub fn prove(b: &Bool) -> Verdict {
        let b = b.simplify();
        if let Some(v) = b.as_bool() {
            if v {
                return Verdict::Proved;
            }
        }
        with(|s| {
            let t0 = std::time::Instant::now();
            watchdog(2 * s.prove_ms / 1000 + 30);
            let f = new_solver(s.prove_ms);
            for a in &s.pc {
                f.assert(a);
            }
            let nb = b.clone().not();
            f.assert(&nb);
            let res = f.check();
            let v = match res {
                SatResult::Unsat => Verdict::Proved,
                SatResult::Sat => match solve_nice(s, &[nb]) {
                    Some(vals) => Verdict::Refuted(vals),
                    None => match f.get_model() {
                        Some(m) => Verdict::Refuted(model_values(s, &m)),
                        None => Verdict::Unknown("sat without model".into()),
                    },
                },
                SatResult::Unknown => Verdict::Unknown(f.get_reason_unknown().unwrap_or_default()),
            };
            watchdog(0);
            let sh = unsafe { &*s.shared };
            sh.proves.fetch_add(1, AO::Relaxed);
            sh.prove_us.fetch_add(t0.elapsed().as_micros() as u64, AO::Relaxed);
            v
        })
    }

    /// Concrete input values satisfying the current path condition (for path witnesses).
    pub fn witness() -> Option<Vec<(String, String)>> {
        with(|s| {
            watchdog(60);
            let r = solve_nice(s, &[]);
            watchdog(0);
            r
        })
    }
    /// ... that additionally satisfy `extra` (boundary witnesses)
    pub fn witness_with(extra: &[Bool]) -> Option<Vec<(String, String)>> {
        with(|s| {
            watchdog(60);
            let r = solve_nice(s, extra);
            watchdog(0);
            r
        })
    }

    /// End this path: count the leaf and leave the process without running destructors.
    pub fn leaf_exit() -> ! {
        sh().leaves.fetch_add(1, AO::SeqCst);
        unsafe { libc::_exit(0) }
    }
    /// true once the per-skeleton leaf budget is used up
    pub fn over_budget() -> bool {
        let s = sh();
        s.leaves.load(AO::SeqCst) >= s.max_leaves.load(AO::SeqCst)
    }
    /// Run `f` in a forked child and wait for it (used to isolate one skeleton from the next).
    pub fn in_child(f: impl FnOnce()) -> i32 {
        let pid = unsafe { libc::fork() };
        if pid == 0 {
            f();
            unsafe { libc::_exit(0) }
        }
        let mut status = 0;
        unsafe { libc::waitpid(pid, &mut status, 0) };
        if libc::WIFEXITED(status) {
            libc::WEXITSTATUS(status)
        } else {
            128
        }
    }
    /// n-way choice point (used for map iteration orders): forks n-1 children, each path continues with its own index.
    pub fn choose(n: usize) -> usize {
        if n <= 1 {
            return 0;
        }
        let shr = sh();
        for k in 0..n - 1 {
            if shr.leaves.load(AO::SeqCst) >= shr.max_leaves.load(AO::SeqCst) {
                shr.capped.fetch_add(1, AO::SeqCst);
                unsafe { libc::_exit(0) }
            }
            shr.forks.fetch_add(1, AO::Relaxed);
            shr.decisions.fetch_add(1, AO::Relaxed);
            let pid = unsafe { libc::fork() };
            if pid < 0 {
                eprintln!("SYMX: fork failed");
                unsafe { libc::_exit(3) }
            }
            if pid == 0 {
                with(|s| s.trail.push_str(&format!("<{k}>")));
                return k;
            }
            let mut status = 0;
            unsafe { libc::waitpid(pid, &mut status, 0) };
            if !(libc::WIFEXITED(status) && libc::WEXITSTATUS(status) == 0) {
                shr.child_fail.fetch_add(1, AO::SeqCst);
                let code = if libc::WIFEXITED(status) { libc::WEXITSTATUS(status) } else { 3 };
                eprintln!("SYMX: child path failed (status {status})");
                unsafe { libc::_exit(if code == 2 { 2 } else { 3 }) }
            }
        }
        with(|s| s.trail.push_str(&format!("<{}>", n - 1)));
        n - 1
    }

    pub fn reset_counters() {
        let s = sh();
        for a in [
            &s.leaves, &s.forks, &s.checks, &s.solver_us, &s.decisions, &s.unknown_branch, &s.proves,
            &s.prove_us, &s.capped, &s.child_fail, &s.watchdog,
        ] {
            a.store(0, AO::SeqCst);
        }
        s.deadline_s.store(mono_s() + env_u32("SYMX_SKELETON_S", 300) as u64, AO::SeqCst);
    }
}

fn timed_check(s: &St, assumption: &Bool) -> SatResult {
    let t0 = std::time::Instant::now();
    enforce_deadline(unsafe { &*s.shared });
    watchdog((3 * s.decide_ms / 1000).max(15));
    let r = s.solver.check_assumptions(&[assumption.clone()]);
    watchdog(0);
    let shr = unsafe { &*s.shared };
    shr.checks.fetch_add(1, AO::Relaxed);
    shr.solver_us.fetch_add(t0.elapsed().as_micros() as u64, AO::Relaxed);
    r
}

/// Decide a branch condition under the path condition; fork when both outcomes are feasible.
fn decide(c: &Bool) -> bool {
    let c = c.simplify();
    if let Some(b) = c.as_bool() {
        return b;
    }
    enum Plan {
        Known(bool),
        Fork(Option<Model>, Option<Model>),
        Dead,
    }
    let plan = with(|s| {
        let shr = unsafe { &*s.shared };
        shr.decisions.fetch_add(1, AO::Relaxed);
        if let Some(b) = s.cache.get(&c) {
            return Plan::Known(*b);
        }
        let guess = s.model.as_ref().and_then(|m| m.eval(&c, true)).and_then(|v| v.as_bool());
        let nc = c.clone().not();
        let mut mt: Option<Model> = None;
        let mut mf: Option<Model> = None;
        let t = if guess == Some(true) {
            mt = s.model.take();
            true
        } else {
            match timed_check(s, &c) {
                SatResult::Sat => {
                    mt = s.solver.get_model();
                    true
                }
                SatResult::Unknown => {
                    shr.unknown_branch.fetch_add(1, AO::Relaxed);
                    true
                }
                SatResult::Unsat => false,
            }
        };
        let f = if guess == Some(false) {
            mf = s.model.take();
            true
        } else {
            match timed_check(s, &nc) {
                SatResult::Sat => {
                    mf = s.solver.get_model();
                    true
                }
                SatResult::Unknown => {
                    shr.unknown_branch.fetch_add(1, AO::Relaxed);
                    true
                }
                SatResult::Unsat => false,
            }
        };
        match (t, f) {
            (true, false) => {
                s.cache.insert(c.clone(), true);
                s.model = mt;
                Plan::Known(true)
            }
            (false, true) => {
                s.cache.insert(c.clone(), false);
                s.model = mf;
                Plan::Known(false)
            }
            (false, false) => Plan::Dead,
            (true, true) => Plan::Fork(mt, mf),
        }
    });
    match plan {
        Plan::Known(b) => b,
        Plan::Dead => unsafe { libc::_exit(0) }, // path condition infeasible (only after an `unknown`): end silently
        Plan::Fork(mt, mf) => {
            let shr = sh();
            if shr.leaves.load(AO::SeqCst) >= shr.max_leaves.load(AO::SeqCst) {
                shr.capped.fetch_add(1, AO::SeqCst);
                unsafe { libc::_exit(0) }
            }
            shr.forks.fetch_add(1, AO::Relaxed);
            let pid = unsafe { libc::fork() };
            if pid < 0 {
                eprintln!("SYMX: fork failed");
                unsafe { libc::_exit(3) }
            }
            if pid == 0 {
                with(|s| {
                    s.solver.assert(&c);
                    s.pc.push(c.clone());
                    s.cache.insert(c.clone(), true);
                    s.model = mt;
                    s.trail.push('T');
                });
                true
            } else {
                let mut status = 0;
                unsafe { libc::waitpid(pid, &mut status, 0) };
                if !(libc::WIFEXITED(status) && libc::WEXITSTATUS(status) == 0) {
                    shr.child_fail.fetch_add(1, AO::SeqCst);
                    let code = if libc::WIFEXITED(status) { libc::WEXITSTATUS(status) } else { 3 };
                    eprintln!("SYMX: child path failed (status {status})");
                    unsafe { libc::_exit(if code == 2 { 2 } else { 3 }) }
                }
                with(|s| {
                    let nc = c.clone().not();
                    s.solver.assert(&nc);
                    s.pc.push(nc);
                    s.cache.insert(c.clone(), false);
                    s.model = mf;
                    s.trail.push('F');
                });
                false
            }
        }
    }
}

fn two96() -> Q {
    Q { n: num_traits::pow(BigInt::from(2), 96), d: BigInt::one() }
}

fn overflow_guard(r: Decimal, what: &str) -> Decimal {
    if with(|s| s.overflow_check) {
        let lim = two96();
        let over = match get(r) {
            Val::C(q) => q.abs().cmp(&lim) != Ordering::Less,
            Val::S(t) => {
                let l = qreal(&lim);
                decide(&Bool::or(&[&t.ge(&l), &t.le(&l.unary_minus())]))
            }
        };
        if over {
            panic!("{what} overflowed");
        }
    }
    r
}

fn bin(a: Decimal, b: Decimal, cf: impl Fn(&Q, &Q) -> Q, sf: impl Fn(&Real, &Real) -> Real) -> Decimal {
    let (va, vb) = (get(a), get(b));
    if let (Val::C(x), Val::C(y)) = (&va, &vb) {
        return push(Val::C(cf(x, y)));
    }
    push(Val::S(sf(&real(&va), &real(&vb))))
}

// ---------------------------------------------------------------- Decimal API
#[derive(Clone, Copy, Debug, PartialEq, Eq, Hash)]
pub enum RoundingStrategy {
    MidpointNearestEven,
    MidpointAwayFromZero,
    MidpointTowardZero,
    ToZero,
    AwayFromZero,
    ToNegativeInfinity,
    ToPositiveInfinity,
    BankersRounding,
    RoundHalfUp,
    RoundHalfDown,
    RoundDown,
    RoundUp,
}

fn round_q(q: &Q, dp: u32, st: RoundingStrategy) -> Q {
    use RoundingStrategy::*;
    let p = Q::pow10(dp);
    let y = Q::new(&q.n * &p, q.d.clone());
    let fl = y.floor();
    let frac = y.sub(&Q { n: fl.clone(), d: BigInt::one() }); // in [0,1)
    let half = Q::new(BigInt::one(), BigInt::from(2));
    let neg = q.n.is_negative();
    let up = &fl + BigInt::one();
    let exact = frac.n.is_zero();
    let c = frac.cmp(&half);
    let r = match st {
        MidpointNearestEven | BankersRounding => match c {
            Ordering::Less => fl,
            Ordering::Greater => up,
            Ordering::Equal => {
                if fl.is_even() {
                    fl
                } else {
                    up
                }
            }
        },
        MidpointAwayFromZero | RoundHalfUp => match c {
            Ordering::Less => fl,
            Ordering::Greater => up,
            Ordering::Equal => {
                if neg {
                    fl
                } else {
                    up
                }
            }
        },
        MidpointTowardZero | RoundHalfDown => match c {
            Ordering::Less => fl,
            Ordering::Greater => up,
            Ordering::Equal => {
                if neg {
                    up
                } else {
                    fl
                }
            }
        },
        ToNegativeInfinity => fl,
        ToPositiveInfinity => {
            if exact {
                fl
            } else {
                up
            }
        }
        ToZero | RoundDown => {
            if neg && !exact {
                up
            } else {
                fl
            }
        }
        AwayFromZero | RoundUp => {
            if neg || exact {
                fl
            } else {
                up
            }
        }
    };
    Q::new(r, p)
}

fn round_s(r: &Real, dp: u32, st: RoundingStrategy) -> Real {
    use RoundingStrategy::*;
    let p = qreal(&Q { n: Q::pow10(dp), d: BigInt::one() });
    let zero = Real::from_rational(0, 1);
    let one = Real::from_rational(1, 1);
    let half = Real::from_rational(1, 2);
    let y = r * &p;
    let fli = y.to_int();
    let fl = Real::from_int(&fli);
    let frac = &y - &fl;
    let up = &fl + &one;
    let neg = r.lt(&zero);
    let exact = frac.eq(&zero);
    let lt = frac.lt(&half);
    let gt = frac.gt(&half);
    let res = match st {
        MidpointNearestEven | BankersRounding => {
            let even = fli.modulo(&Int::from_i64(2)).eq(&Int::from_i64(0));
            lt.ite(&fl, &gt.ite(&up, &even.ite(&fl, &up)))
        }
        MidpointAwayFromZero | RoundHalfUp => lt.ite(&fl, &gt.ite(&up, &neg.ite(&fl, &up))),
        MidpointTowardZero | RoundHalfDown => lt.ite(&fl, &gt.ite(&up, &neg.ite(&up, &fl))),
        ToNegativeInfinity => fl.clone(),
        ToPositiveInfinity => exact.ite(&fl, &up),
        ToZero | RoundDown => Bool::and(&[&neg, &exact.not()]).ite(&up, &fl),
        AwayFromZero | RoundUp => Bool::or(&[&neg, &exact]).ite(&fl, &up),
    };
    &res / &p
}

impl Decimal {
    pub const ZERO: Decimal = Decimal { id: 0 };
    pub const ONE: Decimal = Decimal { id: 1 };
    pub const NEGATIVE_ONE: Decimal = Decimal { id: 2 };
    pub const TWO: Decimal = Decimal { id: 3 };
    pub const TEN: Decimal = Decimal { id: 4 };
    pub const ONE_HUNDRED: Decimal = Decimal { id: 5 };
    pub const ONE_THOUSAND: Decimal = Decimal { id: 6 };
    pub const MAX: Decimal = Decimal { id: 7 };
    pub const MIN: Decimal = Decimal { id: 8 };

    pub fn new(num: i64, scale: u32) -> Decimal {
        push(Val::C(Q::new(BigInt::from(num), Q::pow10(scale))))
    }
    pub fn from_i128_with_scale(num: i128, scale: u32) -> Decimal {
        push(Val::C(Q::new(BigInt::from(num), Q::pow10(scale))))
    }
    pub fn try_new(num: i64, scale: u32) -> StdResult<Decimal, Error> {
        Ok(Decimal::new(num, scale))
    }
    pub fn from_str_exact(s: &str) -> StdResult<Decimal, Error> {
        Decimal::from_str(s)
    }
    pub fn is_zero(&self) -> bool {
        *self == Decimal::ZERO
    }
    pub fn is_sign_negative(&self) -> bool {
        *self < Decimal::ZERO
    }
    pub fn is_sign_positive(&self) -> bool {
        *self >= Decimal::ZERO
    }
    pub fn abs(&self) -> Decimal {
        match get(*self) {
            Val::C(q) => push(Val::C(q.abs())),
            Val::S(r) => {
                let z = Real::from_rational(0, 1);
                with_dp(push(Val::S(r.ge(&z).ite(&r, &r.unary_minus()))), dp_of(*self))
            }
        }
    }
    pub fn normalize(&self) -> Decimal {
        *self
    }
    pub fn round_dp(&self, dp: u32) -> Decimal {
        self.round_dp_with_strategy(dp, RoundingStrategy::MidpointNearestEven)
    }
    pub fn round_dp_with_strategy(&self, dp: u32, st: RoundingStrategy) -> Decimal {
        match get(*self) {
            Val::C(q) => push(Val::C(round_q(&q, dp, st))),
            Val::S(r) => {
                if dp >= ABSTRACT_ROUND_DP {
                    // "normalisation" roundings far below a penny: sound over-approximation by a fresh value
                    // within the rounding error bound (exact to_int terms at 10^10 scale stall the solver)
                    use RoundingStrategy::*;
                    let half = matches!(
                        st,
                        MidpointNearestEven | MidpointAwayFromZero | MidpointTowardZero | BankersRounding | RoundHalfUp | RoundHalfDown
                    );
                    let ulp = Q::new(BigInt::from(if half { 1 } else { 2 }), Q::pow10(dp) * 2);
                    let e = qreal(&ulp);
                    // the same term rounded twice is the same value (rounding is a function)
                    let key = (r.clone(), dp, half);
                    if let Some(v) = with(|s| s.round_memo.get(&key).cloned()) {
                        return push(Val::S(v));
                    }
                    let n = with(|s| {
                        s.n_abstract += 1;
                        s.n_abstract
                    });
                    let v = Real::new_const(format!("symx!round{n}"));
                    let d = &v - &r;
                    let c = Bool::and(&[&d.le(&e), &d.ge(&e.unary_minus())]);
                    with(|s| {
                        s.solver.assert(&c);
                        s.pc.push(c.clone());
                        s.round_memo.insert(key, v.clone());
                    });
                    push(Val::S(v))
                } else if dp_of(*self).map(|k| k <= dp).unwrap_or(false) {
                    *self // already a multiple of 10^-dp
                } else {
                    with_dp(push(Val::S(round_s(&r, dp, st))), Some(dp))
                }
            }
        }
    }
    pub fn round(&self) -> Decimal {
        self.round_dp(0)
    }
    pub fn trunc(&self) -> Decimal {
        self.round_dp_with_strategy(0, RoundingStrategy::ToZero)
    }
    pub fn trunc_with_scale(&self, dp: u32) -> Decimal {
        self.round_dp_with_strategy(dp, RoundingStrategy::ToZero)
    }
    pub fn floor(&self) -> Decimal {
        self.round_dp_with_strategy(0, RoundingStrategy::ToNegativeInfinity)
    }
    pub fn ceil(&self) -> Decimal {
        self.round_dp_with_strategy(0, RoundingStrategy::ToPositiveInfinity)
    }
    pub fn fract(&self) -> Decimal {
        *self - self.trunc()
    }
    pub fn scale(&self) -> u32 {
        match get(*self) {
            Val::C(q) => {
                let mut d = q.d.clone();
                let mut k = 0;
                let mut twos = 0;
                let mut fives = 0;
                while (&d % 2u8).is_zero() {
                    d /= 2;
                    twos += 1;
                }
                while (&d % 5u8).is_zero() {
                    d /= 5;
                    fives += 1;
                }
                if d.is_one() {
                    k = twos.max(fives);
                } else {
                    k = 28;
                }
                k
            }
            Val::S(_) => concretisation("scale()"),
        }
    }
    pub fn mantissa(&self) -> i128 {
        match get(*self) {
            Val::C(q) => {
                let k = self.scale();
                (Q::new(&q.n * Q::pow10(k), q.d.clone()).floor()).to_i128().unwrap_or(i128::MAX)
            }
            Val::S(_) => concretisation("mantissa()"),
        }
    }
    pub fn min(self, o: Decimal) -> Decimal {
        let (a, b) = (get(self), get(o));
        match (&a, &b) {
            (Val::C(x), Val::C(y)) => {
                if x.cmp(y) != Ordering::Greater {
                    self
                } else {
                    o
                }
            }
            _ => {
                let (ra, rb) = (real(&a), real(&b));
                push(Val::S(ra.le(&rb).ite(&ra, &rb)))
            }
        }
    }
    pub fn max(self, o: Decimal) -> Decimal {
        let (a, b) = (get(self), get(o));
        match (&a, &b) {
            (Val::C(x), Val::C(y)) => {
                if x.cmp(y) != Ordering::Less {
                    self
                } else {
                    o
                }
            }
            _ => {
                let (ra, rb) = (real(&a), real(&b));
                push(Val::S(ra.ge(&rb).ite(&ra, &rb)))
            }
        }
    }
    fn overflows(r: Decimal) -> bool {
        let lim = two96();
        match get(r) {
            Val::C(q) => q.abs().cmp(&lim) != Ordering::Less,
            Val::S(t) => {
                let l = qreal(&lim);
                decide(&Bool::or(&[&t.ge(&l), &t.le(&l.unary_minus())]))
            }
        }
    }
    pub fn checked_add(self, o: Decimal) -> Option<Decimal> {
        let r = bin(self, o, |x, y| x.add(y), |a, b| a + b);
        if Decimal::overflows(r) {
            None
        } else {
            Some(r)
        }
    }
    pub fn checked_sub(self, o: Decimal) -> Option<Decimal> {
        let r = bin(self, o, |x, y| x.sub(y), |a, b| a - b);
        if Decimal::overflows(r) {
            None
        } else {
            Some(r)
        }
    }
    pub fn checked_mul(self, o: Decimal) -> Option<Decimal> {
        let r = bin(self, o, |x, y| x.mul(y), |a, b| a * b);
        if Decimal::overflows(r) {
            None
        } else {
            Some(r)
        }
    }
    pub fn checked_div(self, o: Decimal) -> Option<Decimal> {
        if o == Decimal::ZERO {
            return None;
        }
        let r = bin(self, o, |x, y| x.div(y), |a, b| a / b);
        if Decimal::overflows(r) {
            None
        } else {
            Some(r)
        }
    }
    pub fn saturating_add(self, o: Decimal) -> Decimal {
        self.checked_add(o).unwrap_or(if o < Decimal::ZERO { Decimal::MIN } else { Decimal::MAX })
    }
    pub fn saturating_sub(self, o: Decimal) -> Decimal {
        self.checked_sub(o).unwrap_or(if o < Decimal::ZERO { Decimal::MAX } else { Decimal::MIN })
    }
    pub fn saturating_mul(self, o: Decimal) -> Decimal {
        self.checked_mul(o)
            .unwrap_or(if (self < Decimal::ZERO) != (o < Decimal::ZERO) { Decimal::MIN } else { Decimal::MAX })
    }
}

impl Default for Decimal {
    fn default() -> Self {
        Decimal::ZERO
    }
}

macro_rules! from_int {
    ($($t:ty),*) => {$(
        impl From<$t> for Decimal { fn from(v: $t) -> Decimal { push(Val::C(Q::int(v as i128))) } }
    )*};
}
from_int!(i8, i16, i32, i64, u8, u16, u32, u64, usize, isize);
impl From<i128> for Decimal {
    fn from(v: i128) -> Decimal {
        push(Val::C(Q::int(v)))
    }
}

impl Add for Decimal {
    type Output = Decimal;
    fn add(self, o: Decimal) -> Decimal {
        overflow_guard(bin(self, o, |x, y| x.add(y), |a, b| a + b), "Addition")
    }
}
impl Sub for Decimal {
    type Output = Decimal;
    fn sub(self, o: Decimal) -> Decimal {
        overflow_guard(bin(self, o, |x, y| x.sub(y), |a, b| a - b), "Subtraction")
    }
}
impl Mul for Decimal {
    type Output = Decimal;
    fn mul(self, o: Decimal) -> Decimal {
        overflow_guard(bin(self, o, |x, y| x.mul(y), |a, b| a * b), "Multiplication")
    }
}
impl Div for Decimal {
    type Output = Decimal;
    fn div(self, o: Decimal) -> Decimal {
        // the real rust_decimal panics on division by zero: a feasible zero divisor is a panic path
        if o == Decimal::ZERO {
            panic!("Division by zero");
        }
        overflow_guard(bin(self, o, |x, y| x.div(y), |a, b| a / b), "Division")
    }
}
impl Rem for Decimal {
    type Output = Decimal;
    fn rem(self, o: Decimal) -> Decimal {
        if o == Decimal::ZERO {
            panic!("Division by zero");
        }
        let q = (self / o).trunc();
        self - q * o
    }
}
impl Neg for Decimal {
    type Output = Decimal;
    fn neg(self) -> Decimal {
        match get(self) {
            Val::C(q) => push(Val::C(q.neg())),
            Val::S(r) => with_dp(push(Val::S(r.unary_minus())), dp_of(self)),
        }
    }
}
impl<'a> Neg for &'a Decimal {
    type Output = Decimal;
    fn neg(self) -> Decimal {
        -*self
    }
}
macro_rules! refops {
    ($tr:ident, $m:ident) => {
        impl<'a> $tr<&'a Decimal> for Decimal { type Output = Decimal; fn $m(self, o: &Decimal) -> Decimal { $tr::$m(self, *o) } }
        impl<'a> $tr<Decimal> for &'a Decimal { type Output = Decimal; fn $m(self, o: Decimal) -> Decimal { $tr::$m(*self, o) } }
        impl<'a, 'b> $tr<&'b Decimal> for &'a Decimal { type Output = Decimal; fn $m(self, o: &Decimal) -> Decimal { $tr::$m(*self, *o) } }
    };
}
refops!(Add, add);
refops!(Sub, sub);
refops!(Mul, mul);
refops!(Div, div);
refops!(Rem, rem);
macro_rules! assignops {
    ($tr:ident, $m:ident, $op:ident, $opm:ident) => {
        impl $tr for Decimal { fn $m(&mut self, o: Decimal) { *self = $op::$opm(*self, o); } }
        impl<'a> $tr<&'a Decimal> for Decimal { fn $m(&mut self, o: &Decimal) { *self = $op::$opm(*self, *o); } }
    };
}
assignops!(AddAssign, add_assign, Add, add);
assignops!(SubAssign, sub_assign, Sub, sub);
assignops!(MulAssign, mul_assign, Mul, mul);
assignops!(DivAssign, div_assign, Div, div);
assignops!(RemAssign, rem_assign, Rem, rem);

impl std::iter::Sum for Decimal {
    fn sum<I: Iterator<Item = Decimal>>(iter: I) -> Decimal {
        iter.fold(Decimal::ZERO, |a, b| a + b)
    }
}
impl<'a> std::iter::Sum<&'a Decimal> for Decimal {
    fn sum<I: Iterator<Item = &'a Decimal>>(iter: I) -> Decimal {
        iter.fold(Decimal::ZERO, |a, b| a + *b)
    }
}
impl std::iter::Product for Decimal {
    fn product<I: Iterator<Item = Decimal>>(iter: I) -> Decimal {
        iter.fold(Decimal::ONE, |a, b| a * b)
    }
}

fn cmp_bool(a: Decimal, b: Decimal, cf: impl Fn(Ordering) -> bool, sf: impl Fn(&Real, &Real) -> Bool) -> bool {
    let (va, vb) = (get(a), get(b));
    if let (Val::C(x), Val::C(y)) = (&va, &vb) {
        return cf(x.cmp(y));
    }
    decide(&sf(&real(&va), &real(&vb)))
}

impl PartialEq for Decimal {
    fn eq(&self, o: &Decimal) -> bool {
        if self.id == o.id {
            return true;
        }
        cmp_bool(*self, *o, |c| c == Ordering::Equal, |a, b| a.eq(b))
    }
}
impl Eq for Decimal {}
impl PartialOrd for Decimal {
    fn partial_cmp(&self, o: &Decimal) -> Option<Ordering> {
        Some(self.cmp(o))
    }
    fn lt(&self, o: &Decimal) -> bool {
        cmp_bool(*self, *o, |c| c == Ordering::Less, |a, b| a.lt(b))
    }
    fn le(&self, o: &Decimal) -> bool {
        cmp_bool(*self, *o, |c| c != Ordering::Greater, |a, b| a.le(b))
    }
    fn gt(&self, o: &Decimal) -> bool {
        cmp_bool(*self, *o, |c| c == Ordering::Greater, |a, b| a.gt(b))
    }
    fn ge(&self, o: &Decimal) -> bool {
        cmp_bool(*self, *o, |c| c != Ordering::Less, |a, b| a.ge(b))
    }
}
impl Ord for Decimal {
    fn cmp(&self, o: &Decimal) -> Ordering {
        if self.id == o.id {
            Ordering::Equal
        } else if self.lt(o) {
            Ordering::Less
        } else if self == o {
            Ordering::Equal
        } else {
            Ordering::Greater
        }
    }
    fn min(self, o: Decimal) -> Decimal {
        Decimal::min(self, o)
    }
    fn max(self, o: Decimal) -> Decimal {
        Decimal::max(self, o)
    }
}
impl std::hash::Hash for Decimal {
    fn hash<H: std::hash::Hasher>(&self, h: &mut H) {
        match get(*self) {
            Val::C(q) => {
                q.n.hash(h);
                q.d.hash(h);
            }
            Val::S(_) => concretisation("Hash"),
        }
    }
}

#[derive(Debug, Clone, PartialEq)]
pub enum Error {
    ErrorString(String),
    ExceedsMaximumPossibleValue,
    LessThanMinimumPossibleValue,
    Underflow,
    ScaleExceedsMaximumPrecision(u32),
    ConversionTo(String),
}
impl fmt::Display for Error {
    fn fmt(&self, f: &mut fmt::Formatter<'_>) -> fmt::Result {
        match self {
            Error::ErrorString(s) => write!(f, "{s}"),
            o => write!(f, "{o:?}"),
        }
    }
}
impl std::error::Error for Error {}
use core::result::Result as StdResult;

/// Symbolic values are printed as a reserved all-digit literal that `from_str` maps back to the term.
pub const LITERAL_PREFIX: &str = "9876543210";

impl FromStr for Decimal {
    type Err = Error;
    fn from_str(s: &str) -> StdResult<Decimal, Error> {
        let body0 = s;
        let (neg, body) = match body0.strip_prefix('-') {
            Some(r) => (true, r),
            None => (false, body0.strip_prefix('+').unwrap_or(body0)),
        };
        if let Some(rest) = body.strip_prefix(LITERAL_PREFIX) {
            let (idp, fr) = match rest.split_once('.') {
                Some((a, b)) => (a, b),
                None => (rest, ""),
            };
            if idp.len() == 6 && idp.bytes().all(|b| b.is_ascii_digit()) && fr.bytes().all(|b| b == b'0') {
                let id: u32 = idp.parse().map_err(|_| Error::ErrorString("bad literal".into()))?;
                let ok = with(|st| (id as usize) < st.arena.len());
                if ok {
                    let d = Decimal { id };
                    return Ok(if neg { -d } else { d });
                }
            }
        }
        let (ip, fp) = match body.split_once('.') {
            Some((a, b)) => (a, b),
            None => (body, ""),
        };
        let okd = |x: &str| x.bytes().all(|b| b.is_ascii_digit() || b == b'_');
        if (ip.is_empty() && fp.is_empty()) || !okd(ip) || !okd(fp) || body.starts_with('_') {
            return Err(Error::ErrorString("Invalid decimal: unknown character".into()));
        }
        if ip.is_empty() && !body.starts_with('.') {
            return Err(Error::ErrorString("Invalid decimal: empty".into()));
        }
        let digits: String = format!("{ip}{fp}").chars().filter(|c| *c != '_').collect();
        let fl = fp.chars().filter(|c| *c != '_').count() as u32;
        if digits.is_empty() {
            return Err(Error::ErrorString("Invalid decimal: no digits found".into()));
        }
        let n: BigInt = digits.parse().map_err(|_| Error::ErrorString("Invalid decimal".into()))?;
        let n = if neg { -n } else { n };
        Ok(push(Val::C(Q::new(n, Q::pow10(fl)))))
    }
}

impl fmt::Display for Decimal {
    fn fmt(&self, f: &mut fmt::Formatter<'_>) -> fmt::Result {
        match get(*self) {
            Val::C(q) => {
                let s = q.to_decimal_string(f.precision());
                f.pad_integral(!s.starts_with('-'), "", s.trim_start_matches('-'))
            }
            Val::S(r) => {
                // precision p: rust_decimal prints the value truncated to p places; print the literal of that term
                match f.precision() {
                    Some(p) => {
                        let t = if dp_of(*self).map(|k| k as usize <= p).unwrap_or(false) {
                            *self // nothing to truncate
                        } else {
                            push(Val::S(round_s(&r, p as u32, RoundingStrategy::ToZero).simplify()))
                        };
                        if p == 0 {
                            write!(f, "{}{:06}", LITERAL_PREFIX, t.id)
                        } else {
                            write!(f, "{}{:06}.{}", LITERAL_PREFIX, t.id, "0".repeat(p))
                        }
                    }
                    None => write!(f, "{}{:06}", LITERAL_PREFIX, self.id),
                }
            }
        }
    }
}
impl fmt::Debug for Decimal {
    fn fmt(&self, f: &mut fmt::Formatter<'_>) -> fmt::Result {
        fmt::Display::fmt(self, f)
    }
}

impl num_traits::ToPrimitive for Decimal {
    fn to_i64(&self) -> Option<i64> {
        match get(*self) {
            Val::C(q) => round_q(&q, 0, RoundingStrategy::ToZero).n.to_i64(),
            Val::S(_) => concretisation("to_i64"),
        }
    }
    fn to_u64(&self) -> Option<u64> {
        match get(*self) {
            Val::C(q) => round_q(&q, 0, RoundingStrategy::ToZero).n.to_u64(),
            Val::S(_) => concretisation("to_u64"),
        }
    }
    fn to_f64(&self) -> Option<f64> {
        match get(*self) {
            Val::C(q) => q.to_decimal_string(None).parse().ok(),
            Val::S(_) => concretisation("to_f64"),
        }
    }
}
impl num_traits::FromPrimitive for Decimal {
    fn from_i64(n: i64) -> Option<Decimal> {
        Some(Decimal::from(n))
    }
    fn from_u64(n: u64) -> Option<Decimal> {
        Some(Decimal::from(n))
    }
    fn from_f64(n: f64) -> Option<Decimal> {
        Decimal::from_str(&format!("{n}")).ok()
    }
}
impl TryFrom<f64> for Decimal {
    type Error = Error;
    fn try_from(v: f64) -> StdResult<Decimal, Error> {
        Decimal::from_str(&format!("{v}"))
    }
}
impl TryFrom<Decimal> for f64 {
    type Error = Error;
    fn try_from(v: Decimal) -> StdResult<f64, Error> {
        num_traits::ToPrimitive::to_f64(&v).ok_or(Error::ConversionTo("f64".into()))
    }
}
impl num_traits::Zero for Decimal {
    fn zero() -> Decimal {
        Decimal::ZERO
    }
    fn is_zero(&self) -> bool {
        *self == Decimal::ZERO
    }
}
impl num_traits::One for Decimal {
    fn one() -> Decimal {
        Decimal::ONE
    }
}

use serde_crate as serde;
impl serde::Serialize for Decimal {
    fn serialize<S: serde::Serializer>(&self, s: S) -> StdResult<S::Ok, S::Error> {
        s.serialize_str(&self.to_string())
    }
}
impl<'de> serde::Deserialize<'de> for Decimal {
    fn deserialize<D: serde::Deserializer<'de>>(d: D) -> StdResult<Decimal, D::Error> {
        struct V;
        impl<'de> serde::de::Visitor<'de> for V {
            type Value = Decimal;
            fn expecting(&self, f: &mut fmt::Formatter) -> fmt::Result {
                f.write_str("a Decimal type representing a fixed-point number")
            }
            fn visit_str<E: serde::de::Error>(self, v: &str) -> StdResult<Decimal, E> {
                Decimal::from_str(v).map_err(E::custom)
            }
            // integers may be the reserved literal of a symbolic value (TOML / JSON numbers)
            fn visit_i64<E: serde::de::Error>(self, v: i64) -> StdResult<Decimal, E> {
                Decimal::from_str(&v.to_string()).map_err(E::custom)
            }
            fn visit_u64<E: serde::de::Error>(self, v: u64) -> StdResult<Decimal, E> {
                Decimal::from_str(&v.to_string()).map_err(E::custom)
            }
            fn visit_f64<E: serde::de::Error>(self, v: f64) -> StdResult<Decimal, E> {
                Decimal::from_str(&v.to_string()).map_err(E::custom)
            }
        }
        d.deserialize_any(V)
    }
}

pub mod prelude {
    pub use super::{Decimal, RoundingStrategy};
    pub use num_traits::{FromPrimitive, One, Signed, ToPrimitive, Zero};
    pub use std::str::FromStr;
}

const _: usize = N_RESERVED;
